// c14: property C14 — the cluster manager never oversubscribes machines nor leaks
// capacity or requests.
//
//	(a) placement decision: the real schedule() on every small configuration (placement.go)
//	(c) conservation of procs through (*bigmachineExecutor).Run: every exit path is
//	    forced on an in-process cluster, then capacity and the manager's books are
//	    checked (cluster.go, child.go)
//	(d) local-mode parallelism limit under the controlled scheduler: sibling binary
//	    c19-sched -layer C14 (layers.go); (b) live manager: sibling c14s-sched if present.
package main

import (
	"flag"
	"os"
	"runtime/pprof"
	"time"

	"verifh/ev"
)

var (
	flagChild = flag.String("c14child", "", "internal: run one cluster case (JSON) in this process")
	flagOnly  = flag.String("only", "", "debug: comma-separated parts to run (a,c,layers)")
	flagProf  = flag.String("cpuprofile", "", "debug: write a CPU profile")
)

func main() {
	flag.Parse()
	if *flagChild != "" {
		childMain(*flagChild)
		return
	}
	if *flagProf != "" {
		f, _ := os.Create(*flagProf)
		pprof.StartCPUProfile(f)
		defer pprof.StopCPUProfile()
	}
	r := ev.Start("C14", "model_checking")
	want := func(p string) bool {
		if *flagOnly == "" {
			return true
		}
		for _, x := range splitComma(*flagOnly) {
			if x == p {
				return true
			}
		}
		return false
	}
	cov := ev.Coverage{}
	var states, transitions, traces int64

	if want("a") {
		b := bounds{MaxMachines: 3, MaxCap: 3, MaxRequests: 3, MaxProcs: 3, Priorities: 2}
		if r.Thorough() {
			b = bounds{MaxMachines: 4, MaxCap: 3, MaxRequests: 4, MaxProcs: 3, Priorities: 2}
		}
		t0 := time.Now()
		c, s, t := runPlacement(r, b)
		c["wall_s"] = time.Since(t0).Seconds()
		cov["part_a_placement"] = c
		states += s
		transitions += t
		traces += t
	}
	// The sibling layers (separate processes) run while part (c) runs.
	type layerRes struct {
		key      string
		c        map[string]interface{}
		s, t, tr int64
	}
	var layerCh chan []layerRes
	if want("layers") {
		layerCh = make(chan []layerRes, 1)
		go func() {
			var out []layerRes
			for _, l := range []struct{ key, bin string }{
				{"layer_d_local_mode", "c19-sched"},
				{"layer_b_live_manager", "c14s-sched"},
			} {
				c, s, t, tr := runLayer(r, l.key, l.bin)
				out = append(out, layerRes{l.key, c, s, t, tr})
			}
			layerCh <- out
		}()
	}
	if want("c") {
		t0 := time.Now()
		c, s, t := runCluster(r)
		c["wall_s"] = time.Since(t0).Seconds()
		cov["part_c_run_exit_paths"] = c
		states += s
		transitions += t
		traces += t
	}
	if layerCh != nil {
		for _, l := range <-layerCh {
			if l.c != nil {
				cov[l.key] = l.c
			}
			states += l.s
			transitions += l.t
			traces += l.tr
		}
	}
	cov["states"] = states
	cov["transitions"] = transitions
	cov["traces_validated_against_impl"] = traces
	if *flagProf != "" {
		pprof.StopCPUProfile()
	}
	r.Finish(cov)
}

func splitComma(s string) []string {
	var out []string
	cur := ""
	for _, c := range s {
		if c == ',' {
			out = append(out, cur)
			cur = ""
			continue
		}
		cur += string(c)
	}
	return append(out, cur)
}
