package main

// Part (a): the placement decision, exhaustively.
//
// The real unexported exec.schedule is called (through the injected accessor
// exec.VerifC14Schedule, which only builds values and heaps) on every
// configuration within the bounds, with both heaps built by container/heap pushes
// in every insertion order. Oracles: see checkPlacement.

import (
	"fmt"
	"sort"
	"sync"

	"github.com/grailbio/bigslice/exec"
	"verifh/ev"
)

type bounds struct {
	MaxMachines int `json:"max_machines"`
	MaxCap      int `json:"max_capacity"`
	MaxRequests int `json:"max_requests"`
	MaxProcs    int `json:"max_procs"`
	Priorities  int `json:"priorities"`
}

// sequences returns all sequences over kinds of length 0..maxLen, shortest
// first, in odometer order.
func sequences(kinds [][2]int, maxLen int) [][][2]int {
	out := [][][2]int{{}}
	prev := [][][2]int{{}}
	for l := 1; l <= maxLen; l++ {
		var cur [][][2]int
		for _, p := range prev {
			for _, k := range kinds {
				s := make([][2]int, 0, l)
				s = append(s, p...)
				s = append(s, k)
				cur = append(cur, s)
			}
		}
		out = append(out, cur...)
		prev = cur
	}
	return out
}

func machineKinds(maxCap int) [][2]int {
	var ks [][2]int
	for c := 1; c <= maxCap; c++ {
		for l := 0; l <= c; l++ {
			ks = append(ks, [2]int{c, l})
		}
	}
	return ks
}

func requestKinds(prios, maxProcs int) [][2]int {
	var ks [][2]int
	for p := 0; p < prios; p++ {
		for n := 1; n <= maxProcs; n++ {
			ks = append(ks, [2]int{p, n})
		}
	}
	return ks
}

// reqBefore: a is served strictly before b according to the documented order:
// lower priority value first; within a priority, larger requests first.
func reqBefore(a, b [2]int) bool {
	if a[0] != b[0] {
		return a[0] < b[0]
	}
	return a[1] > b[1]
}

func free(m [2]int) int { return m[0] - m[1] }

// refSchedule is the reference: the documented algorithm, written over sorted
// lists. It returns whether something is schedulable and, if so, the class of
// the request (priority, procs) and the free procs of the machine. Both are
// unique whatever the order among tied elements (requests with equal priority
// and procs; machines with equal free procs), because the sorted sequences of
// classes are unique.
func refSchedule(machs, reqs [][2]int) (ok bool, req [2]int, mfree int) {
	rs := append([][2]int{}, reqs...)
	sort.SliceStable(rs, func(i, j int) bool { return reqBefore(rs[i], rs[j]) })
	fs := make([]int, len(machs))
	for i, m := range machs {
		fs[i] = free(m)
	}
	sort.Sort(sort.Reverse(sort.IntSlice(fs)))
	for i := 0; i < len(rs) && i < len(fs); i++ {
		if fs[i] == 0 {
			// no machine from here on has a free proc
			return false, [2]int{}, 0
		}
		if rs[i][1] <= fs[i] {
			return true, rs[i], fs[i]
		}
		// machine i is reserved for request i
	}
	return false, [2]int{}, 0
}

type placementBug struct {
	Ordinal  int64       `json:"-"`
	Machines [][2]int    `json:"machines_max_load_in_push_order"`
	Requests [][2]int    `json:"requests_priority_procs_in_push_order"`
	Result   interface{} `json:"schedule_result"`
	Why      string      `json:"why"`
	Count    int64       `json:"cases_with_this_signature"`
}

type placementAgg struct {
	mu       sync.Mutex
	bugs     map[string]*placementBug
	states   map[uint64]struct{}
	outcomes map[[4]int]int64
	calls    int64
	granted  int64
	reserved int64 // calls in which at least one reservation was needed before the decision
	tied     int64 // calls with at least one tie among requests or machines
}

type placementLocal struct {
	bugs     map[string]*placementBug
	states   map[uint64]struct{}
	outcomes map[[4]int]int64
	calls    int64
	granted  int64
	reserved int64
	tied     int64
}

func newLocal() *placementLocal {
	return &placementLocal{bugs: map[string]*placementBug{}, states: map[uint64]struct{}{}, outcomes: map[[4]int]int64{}}
}

func (l *placementLocal) bug(sig string, ord int64, machs, reqs [][2]int, res exec.VerifC14SchedResult, why string) {
	b := l.bugs[sig]
	if b == nil {
		l.bugs[sig] = &placementBug{Ordinal: ord, Machines: machs, Requests: reqs, Result: res, Why: why, Count: 1}
		return
	}
	b.Count++
	if ord < b.Ordinal {
		b.Ordinal, b.Machines, b.Requests, b.Result, b.Why = ord, machs, reqs, res, why
	}
}

func (a *placementAgg) merge(l *placementLocal) {
	a.mu.Lock()
	defer a.mu.Unlock()
	for s, b := range l.bugs {
		o := a.bugs[s]
		if o == nil {
			a.bugs[s] = b
			continue
		}
		o.Count += b.Count
		if b.Ordinal < o.Ordinal {
			b.Count = o.Count
			a.bugs[s] = b
		}
	}
	for k := range l.states {
		a.states[k] = struct{}{}
	}
	for k, v := range l.outcomes {
		a.outcomes[k] += v
	}
	a.calls += l.calls
	a.granted += l.granted
	a.reserved += l.reserved
	a.tied += l.tied
}

// canon packs the sorted multiset of kinds (each kind < 64 after encoding).
func canon(machs, reqs [][2]int) uint64 {
	var mk, rk [8]int
	for i, m := range machs {
		mk[i] = m[0]*5 + m[1] + 1 // cap<=4, load<=4 -> < 26
	}
	for i, r := range reqs {
		rk[i] = r[0]*5 + r[1] + 1
	}
	sort.Ints(mk[:len(machs)])
	sort.Ints(rk[:len(reqs)])
	var k uint64
	for i := 0; i < 4; i++ {
		k = k<<6 | uint64(mk[i])
	}
	for i := 0; i < 4; i++ {
		k = k<<6 | uint64(rk[i])
	}
	return k
}

// checkQueue verifies that q (slice order) holds every input id exactly once,
// that each element's index field equals its position, and the heap invariant
// under less.
func checkQueue(q []exec.VerifC14Elem, n int, less func(a, b int) bool) string {
	if len(q) != n {
		return fmt.Sprintf("elements-changed: queue has %d elements, %d were pushed", len(q), n)
	}
	seen := make([]bool, n)
	for _, e := range q {
		if e.ID < 0 || e.ID >= n || seen[e.ID] {
			return fmt.Sprintf("elements-changed: element id %d missing, foreign or duplicated", e.ID)
		}
		seen[e.ID] = true
	}
	for i, e := range q {
		if e.Index != i {
			return fmt.Sprintf("index-inconsistent: element at position %d has index field %d", i, e.Index)
		}
	}
	for i := 1; i < len(q); i++ {
		p := (i - 1) / 2
		if less(q[i].ID, q[p].ID) {
			return fmt.Sprintf("heap-invariant-broken: position %d orders before its parent %d", i, p)
		}
	}
	return ""
}

func sigPart(s string) string {
	for i := 0; i < len(s); i++ {
		if s[i] == ':' {
			return s[:i]
		}
	}
	return s
}

// checkPlacement runs one schedule call and all oracles on it.
func checkPlacement(l *placementLocal, ord int64, machs, reqs [][2]int) {
	res := exec.VerifC14Schedule(machs, reqs)
	l.calls++
	l.states[canon(machs, reqs)] = struct{}{}
	bug := func(oracle, why string) {
		l.bug("C14/a/"+oracle, ord, machs, reqs, res, why)
	}
	if res.Panic != "" {
		bug("schedule-panics", res.Panic)
		return
	}
	rless := func(a, b int) bool { return reqBefore(reqs[a], reqs[b]) }
	mless := func(a, b int) bool { return free(machs[a]) > free(machs[b]) }
	// Heaps as built by the queues' own Push/Less/Swap (pre-state) ...
	if w := checkQueue(res.PreSchedQ, len(reqs), rless); w != "" {
		bug("request-queue-before/"+sigPart(w), w)
	}
	if w := checkQueue(res.PreMachQ, len(machs), mless); w != "" {
		bug("machine-queue-before/"+sigPart(w), w)
	}
	// ... and after schedule: same elements (shelved ones restored), index
	// fields consistent, heap invariant.
	if w := checkQueue(res.SchedQ, len(reqs), rless); w != "" {
		bug("request-queue-after/"+sigPart(w), w)
	}
	if w := checkQueue(res.MachQ, len(machs), mless); w != "" {
		bug("machine-queue-after/"+sigPart(w), w)
	}
	for i := range reqs {
		if res.ReqVals[i] != reqs[i] {
			bug("request-modified", fmt.Sprintf("request %d is %v after the call", i, res.ReqVals[i]))
		}
	}
	for i := range machs {
		if res.MachVals[i] != machs[i] {
			bug("machine-modified", fmt.Sprintf("machine %d is %v after the call", i, res.MachVals[i]))
		}
	}

	// ties (for the vacuity counters only)
	tie := false
	for i := range reqs {
		for j := i + 1; j < len(reqs); j++ {
			if reqs[i] == reqs[j] {
				tie = true
			}
		}
	}
	for i := range machs {
		for j := i + 1; j < len(machs); j++ {
			if free(machs[i]) == free(machs[j]) {
				tie = true
			}
		}
	}
	if tie {
		l.tied++
	}

	ok, wantReq, wantFree := refSchedule(machs, reqs)
	if (res.Req == -1) != (res.Mach == -1) || res.Req < -1 || res.Mach < -1 {
		bug("malformed-result", fmt.Sprintf("returned request id %d, machine id %d (-1 nil, -2 foreign)", res.Req, res.Mach))
		return
	}
	granted := res.Req >= 0
	outcome := [4]int{}
	if granted {
		r, m := reqs[res.Req], machs[res.Mach]
		outcome = [4]int{1, r[0], r[1], free(m)}
		l.granted++
		if free(m) == 0 {
			bug("machine-without-free-procs", fmt.Sprintf("machine %v has no free procs", m))
		}
		if r[1] > free(m) {
			bug("request-does-not-fit", fmt.Sprintf("request %v needs %d procs, machine %v has %d free", r, r[1], m, free(m)))
		}
	}
	l.outcomes[outcome]++
	switch {
	case ok && !granted:
		bug("reference/schedulable-but-nothing-granted", fmt.Sprintf("reference grants %v on a machine with %d free procs", wantReq, wantFree))
	case !ok && granted:
		bug("reference/granted-but-not-schedulable", "reference (first-fit-decreasing with reservation) schedules nothing")
	case ok && granted:
		r, m := reqs[res.Req], machs[res.Mach]
		if r != wantReq {
			bug("reference/wrong-request", fmt.Sprintf("granted %v, reference grants %v (equal priority+procs would be a tie; these differ)", r, wantReq))
		}
		if free(m) != wantFree {
			bug("reference/wrong-machine", fmt.Sprintf("granted a machine with %d free procs, reference the machine with %d (equal free procs would be a tie; these differ)", free(m), wantFree))
		}
	}
	// count reservations (vacuity): reference had to skip at least one pair
	if len(reqs) > 0 && len(machs) > 0 {
		maxFree := 0
		for _, m := range machs {
			if free(m) > maxFree {
				maxFree = free(m)
			}
		}
		top := reqs[0]
		for _, r := range reqs[1:] {
			if reqBefore(r, top) {
				top = r
			}
		}
		if maxFree > 0 && top[1] > maxFree {
			l.reserved++
		}
		// Statement S1: the request first in priority order is granted whenever it
		// fits on some machine.
		if top[1] <= maxFree {
			if !granted {
				bug("statement/first-request-fits-but-not-granted", fmt.Sprintf("request %v is first in priority order and fits on a machine with %d free procs", top, maxFree))
			} else if reqs[res.Req] != top {
				bug("statement/not-in-priority-order", fmt.Sprintf("request %v granted although %v is first in priority order and fits", reqs[res.Req], top))
			}
		}
	}
	if granted {
		// Statement S2: no request that is strictly earlier in priority order fits
		// on the machine that was given away.
		r, m := reqs[res.Req], machs[res.Mach]
		for _, o := range reqs {
			if reqBefore(o, r) && o[1] <= free(m) {
				bug("statement/machine-taken-from-earlier-request", fmt.Sprintf("machine with %d free procs given to %v although %v comes earlier in priority order and fits on it", free(m), r, o))
				break
			}
		}
	} else {
		// Statement S4: a request may be left waiting although it fits somewhere
		// only if every machine it fits on can be reserved for a distinct request
		// that is not later in priority order.
		for i, r := range reqs {
			fits := 0
			for _, m := range machs {
				if r[1] <= free(m) {
					fits++
				}
			}
			notLater := 0
			for j, o := range reqs {
				if j != i && !reqBefore(r, o) {
					notLater++
				}
			}
			if fits > notLater {
				bug("statement/fitting-request-left-waiting", fmt.Sprintf("nothing granted although request %v fits on %d machines and only %d other requests are not later in priority order", r, fits, notLater))
				break
			}
		}
	}
}

// runPlacement is part (a). Returns its coverage.
func runPlacement(r *ev.Run, b bounds) (cov map[string]interface{}, states, transitions int64) {
	mseqs := sequences(machineKinds(b.MaxCap), b.MaxMachines)
	rseqs := sequences(requestKinds(b.Priorities, b.MaxProcs), b.MaxRequests)
	agg := &placementAgg{bugs: map[string]*placementBug{}, states: map[uint64]struct{}{}, outcomes: map[[4]int]int64{}}
	rot := int(uint64(r.Seed) % uint64(len(mseqs))) // VERIF_SEED rotates the visiting order only
	ev.Parallel(len(mseqs), 16, func(k int) {
		mi := (k + rot) % len(mseqs)
		l := newLocal()
		for ri, rs := range rseqs {
			checkPlacement(l, int64(mi)*int64(len(rseqs))+int64(ri), mseqs[mi], rs)
		}
		agg.merge(l)
	})
	var sigs []string
	for s := range agg.bugs {
		sigs = append(sigs, s)
	}
	sort.Strings(sigs)
	for _, s := range sigs {
		bg := agg.bugs[s]
		r.Violate(s, fmt.Sprintf("schedule() on machines %v (max,load; push order) and requests %v (priority,procs; push order): %s [%d configurations×orders with this signature]",
			bg.Machines, bg.Requests, bg.Why, bg.Count), bg)
	}
	// samples: one grant, one reservation
	if len(mseqs) > 20 && len(rseqs) > 20 {
		for _, c := range [][2][][2]int{
			{{{3, 1}, {2, 1}}, {{0, 3}, {1, 1}}},
			{{{3, 0}}, {{1, 3}, {0, 1}}},
		} {
			res := exec.VerifC14Schedule(c[0], c[1])
			ok, wr, wf := refSchedule(c[0], c[1])
			r.Sample(map[string]interface{}{"part": "a", "machines_max_load": c[0], "requests_priority_procs": c[1],
				"impl_request": res.Req, "impl_machine": res.Mach, "reference_schedulable": ok, "reference_request": wr, "reference_machine_free": wf})
		}
	}
	cov = map[string]interface{}{
		"bounds":                             b,
		"machine_push_sequences":             len(mseqs),
		"request_push_sequences":             len(rseqs),
		"schedule_calls":                     agg.calls,
		"distinct_configurations":            len(agg.states),
		"distinct_outcomes":                  len(agg.outcomes),
		"outcomes":                           outcomeNames(agg.outcomes),
		"calls_granting":                     agg.granted,
		"calls_where_first_request_reserved": agg.reserved,
		"calls_with_ties":                    agg.tied,
		"oracles":                            "reference FFD-with-reservation (whether; which up to ties = equal priority+procs requests, equal-free-procs machines); fit; free>0; queue elements/values preserved; index fields; heap invariant (before and after); statement-level: first-in-order request granted if it fits anywhere, no machine given to a request while an earlier one fits on it, a fitting request waits only behind reservations",
	}
	return cov, int64(len(agg.states)), agg.calls
}

func outcomeNames(m map[[4]int]int64) map[string]int64 {
	out := map[string]int64{}
	for k, v := range m {
		if k[0] == 0 {
			out["nothing schedulable"] = v
		} else {
			out[fmt.Sprintf("grant prio=%d procs=%d on machine with %d free", k[1], k[2], k[3])] = v
		}
	}
	return out
}
