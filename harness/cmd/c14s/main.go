// c14s — C14 layer (b): the real machineManager event loop (Do), source-instrumented,
// under the vsched scheduler on verifsystem machines. Requester threads Offer /
// cancel / receive / Done(ok | remote error | transport error); one step may stop a
// machine. Every interaction with the manager is observed, in the manager's own order,
// through vsched.Watch on its channels, and checked against a ledger:
// capacity, exclusivity, probation / stopped machines get no new work, priority order,
// every proc returned exactly once, no request that fits is left waiting (deadlock).
//
//	c14s-sched -layer C14 -tier quick|thorough    prints "LAYER {json}" for the c14 harness
package main

import (
	"context"
	"encoding/json"
	"errors"
	"flag"
	"fmt"
	"os"
	"reflect"
	"sort"
	"strings"
	"time"

	baseerrors "github.com/grailbio/base/errors"
	"github.com/grailbio/bigmachine"
	"github.com/grailbio/bigslice/exec"
	"github.com/grailbio/bigslice/verifrt/vsched"
	"verifh/ev"
	"verifh/mc"
	"verifh/vsys"
)

var monKey uintptr = 0xc14

type reqInfo struct {
	prio, procs int
	name        string
}

type machInfo struct {
	load      int
	cap       int
	probation bool
	stopped   bool // the harness stopped it (the manager may not know yet)
	name      string
}

// ledger is the harness's record of the manager's interactions, in manager order.
type ledger struct {
	queue   map[<-chan *exec.VerifC14sMachine]*reqInfo // offered, not yet granted/cancelled
	mach    map[*exec.VerifC14sMachine]*machInfo
	order   []*exec.VerifC14sMachine
	grants  int
	dones   int
	events  []string
	started int

	doneWatched bool
}

func (l *ledger) machine(m *exec.VerifC14sMachine) *machInfo {
	mi := l.mach[m]
	if mi == nil {
		_, capacity, _ := exec.VerifC14sMachineView(m)
		mi = &machInfo{cap: capacity, name: strings.TrimPrefix(m.Addr, "http://")}
		l.mach[m] = mi
		l.order = append(l.order, m)
		if !l.doneWatched {
			// all machines of a manager report on the same channel
			l.doneWatched = true
			exec.VerifC14sWatchDone(m, l.onDone)
		}
	}
	return mi
}

func (l *ledger) onOffer(r *exec.VerifC14sRequest) {
	vsched.Monitor(monKey, func() {
		prio, procs, c := exec.VerifC14sReqInfo(r)
		l.queue[c] = &reqInfo{prio: prio, procs: procs}
		l.events = append(l.events, fmt.Sprintf("offer(p%d,%d)", prio, procs))
	})
}

func (l *ledger) onCancel(r *exec.VerifC14sRequest) {
	vsched.Monitor(monKey, func() {
		_, _, c := exec.VerifC14sReqInfo(r)
		delete(l.queue, c)
		l.events = append(l.events, "cancel")
	})
}

func (l *ledger) onGrant(c <-chan *exec.VerifC14sMachine, m *exec.VerifC14sMachine) {
	vsched.Monitor(monKey, func() {
		r := l.queue[c]
		if r == nil {
			vsched.Fail("a request that is not queued (cancelled or already served) was granted a machine")
			return
		}
		mi := l.machine(m)
		l.events = append(l.events, fmt.Sprintf("grant(p%d,%d->%s load %d/%d)", r.prio, r.procs, mi.name, mi.load, mi.cap))
		if mi.load+r.procs > mi.cap {
			vsched.Fail("machine oversubscribed: %d procs granted on a machine with load %d of capacity %d", r.procs, mi.load, mi.cap)
		}
		if mi.probation {
			vsched.Fail("a machine on probation (transport error reported, no success since) received new work")
		}
		// priority order: no queued request that sorts before r may fit on a healthy machine
		for qc, q := range l.queue {
			if qc == c {
				continue
			}
			before := q.prio < r.prio || (q.prio == r.prio && q.procs > r.procs)
			if !before {
				continue
			}
			for _, om := range l.order {
				o := l.mach[om]
				if !o.probation && !o.stopped && o.load+q.procs <= o.cap {
					vsched.Fail("request (priority %d, %d procs) granted while request (priority %d, %d procs), which sorts before it, fits on an available machine", r.prio, r.procs, q.prio, q.procs)
				}
			}
		}
		mi.load += r.procs
		l.grants++
		delete(l.queue, c)
	})
}

func (l *ledger) onDone(m *exec.VerifC14sMachine, procs int, err error) {
	vsched.Monitor(monKey, func() {
		mi := l.machine(m)
		mi.load -= procs
		l.dones++
		kind := "ok"
		switch {
		case err == nil:
			mi.probation = false
		case baseerrors.Is(baseerrors.Remote, err):
			kind = "remote"
		default:
			kind = "net"
			if !mi.stopped {
				mi.probation = true
			}
		}
		l.events = append(l.events, fmt.Sprintf("done(%s,%d,%s)", mi.name, procs, kind))
		if mi.load < 0 {
			vsched.Fail("more procs returned to a machine than were handed out (load %d)", mi.load)
		}
	})
}

type scenCfg struct {
	name     string
	procsPer int   // procs per machine
	machines int   // machines (cap of the system)
	reqs     []int // procs of each requester (0 = whole machine)
	prios    []int
	netErrs  int  // how many Done calls may report a transport error
	remErrs  int  // how many may report a remote (application) error
	cancels  int  // how many requesters may cancel instead of waiting
	stop     bool // one machine may be stopped at a requester step
	// holds: number of 1-proc requests granted (and kept) in the prelude; they are
	// returned by the main thread once releaseAfter explored grants have happened.
	holds, releaseAfter int
}

var outcomeStr string

func body(cfg scenCfg) func() {
	return func() {
		sys := vsys.New(cfg.procsPer)
		sys.MaxMachines = cfg.machines
		vsched.Cleanup(sys.Stop) // stop the machines' background loops after the execution
		sys.Keepalive = [3]time.Duration{20 * time.Millisecond, time.Minute, 10 * time.Second}
		if cfg.stop {
			// loss of a killed machine is noticed after the keepalive timeout
			sys.Keepalive = [3]time.Duration{20 * time.Millisecond, 400 * time.Millisecond, 200 * time.Millisecond}
		}
		mgr := exec.VerifC14sNewManager(sys, cfg.procsPer*cfg.machines, 1.0)
		l := &ledger{queue: map[<-chan *exec.VerifC14sMachine]*reqInfo{}, mach: map[*exec.VerifC14sMachine]*machInfo{}}
		ctx, cancelAll := context.WithCancel(context.Background())
		defer cancelAll()
		whole := mgr.Machprocs()
		request := func(prio, procs int) (<-chan *exec.VerifC14sMachine, func()) {
			c, cancel := mgr.Offer(prio, procs)
			vsched.Watch(c, func(m *exec.VerifC14sMachine) { l.onGrant(c, m) })
			return c, cancel
		}
		// Prelude (not explored): start the manager and bring all machines up by
		// requesting every machine whole, then return them.
		var held []*exec.VerifC14sMachine
		vsched.Prelude(func() {
			mgr.WatchQueue(l.onOffer, l.onCancel)
			vsched.Go("manager", func() { vsched.Daemon(); mgr.Do(ctx) })
			for i := 0; i < cfg.machines; i++ {
				c, _ := request(0, whole)
				held = append(held, vsched.Recv("prelude-grant", c))
			}
			for _, m := range held {
				m.Done(whole, nil)
			}
			held = held[:0]
			for i := 0; i < cfg.holds; i++ {
				c, _ := request(0, 1)
				held = append(held, vsched.Recv("prelude-hold", c))
			}
		})
		baseGrants := 0
		vsched.Monitor(monKey, func() { baseGrants = l.grants })
		vsched.Monitor(monKey, func() { l.events = append(l.events, "--explore--") })
		netLeft, remLeft, cancelLeft, stopLeft := cfg.netErrs, cfg.remErrs, cfg.cancels, 0
		if cfg.stop {
			stopLeft = 1
		}
		var wg vsched.WaitGroup
		for i := range cfg.reqs {
			i := i
			procs := cfg.reqs[i]
			if procs == 0 {
				procs = whole
			}
			wg.Add(1)
			vsched.Go(fmt.Sprintf("req%d", i), func() {
				defer wg.Done()
				c, cancel := request(cfg.prios[i], procs)
				// Environment tokens are RESERVED before the Choose point that may spend them
				// and handed back if it does not: testing the budget before the point and
				// decrementing after it let two requesters parked at their points both spend
				// the last token (two transport errors with netErrs=1 put both machines on
				// probation and the third request could never be granted — a deadlock made by
				// the harness, reported once as request-never-granted-or-deadlock).
				doCancel := false
				vsched.Monitor(monKey, func() {
					if doCancel = cancelLeft > 0; doCancel {
						cancelLeft--
					}
				})
				if doCancel {
					if vsched.Choose("cancel?", 2) == 1 {
						cancel()
						return
					}
					vsched.Monitor(monKey, func() { cancelLeft++ })
				}
				m := vsched.Recv("grant", c)
				// environment: maybe stop a machine now
				doStop := false
				vsched.Monitor(monKey, func() {
					if doStop = stopLeft > 0; doStop {
						stopLeft--
					}
				})
				stoppedMine := false
				if doStop {
					if vsched.Choose("stop?", 2) == 1 {
						vsched.Monitor(monKey, func() { l.machine(m).stopped = true; l.machine(m).probation = false })
						stopMachine(sys, m)
						stoppedMine = true
					} else {
						vsched.Monitor(monKey, func() { stopLeft++ })
					}
				}
				// outcome of the work
				n := 1
				var canNet, canRem bool
				if !stoppedMine {
					vsched.Monitor(monKey, func() {
						if canNet = netLeft > 0; canNet {
							netLeft--
						}
						if canRem = remLeft > 0; canRem {
							remLeft--
						}
					})
				}
				if canRem {
					n = 2
				}
				if canNet {
					n = 3
				}
				var err error
				if stoppedMine {
					err = errors.New("connection refused (machine stopped)")
				} else {
					usedNet, usedRem := false, false
					switch k := vsched.Choose("outcome", n); {
					case k == 1 && canRem:
						usedRem = true
						err = baseerrors.E(baseerrors.Remote, "application error")
					case k == 2 || (k == 1 && !canRem && canNet):
						usedNet = true
						err = baseerrors.E(baseerrors.Net, "connection reset")
					}
					vsched.Monitor(monKey, func() {
						if canNet && !usedNet {
							netLeft++
						}
						if canRem && !usedRem {
							remLeft++
						}
					})
				}
				m.Done(procs, err)
			})
		}
		if cfg.holds > 0 {
			// return the held procs once the expected number of explored grants has happened
			vsched.Await("release-holds", func() bool { return l.grants >= baseGrants+cfg.releaseAfter })
			for _, m := range held {
				m.Done(1, nil)
			}
		}
		wg.Wait()
		vsched.Quiesce() // let the manager digest the last messages
		// quiescence: every proc returned exactly once, in the ledger and in the manager's own books
		vsched.Monitor(monKey, func() {
			var parts []string
			for _, m := range l.order {
				mi := l.mach[m]
				if mi.load != 0 {
					vsched.Fail("ledger: machine %s still has %d procs assigned after every task ended", mi.name, mi.load)
				}
				tp, _, health := exec.VerifC14sMachineView(m)
				if tp != 0 {
					vsched.Fail("manager: machine %s has taskProcs=%d after every task ended (procs leaked or returned twice)", mi.name, tp)
				}
				parts = append(parts, fmt.Sprintf("%s:%s", mi.name, health))
			}
			if len(l.queue) != 0 {
				vsched.Fail("%d requests still queued after all requesters finished", len(l.queue))
			}
			if n := len(sys.Hosts()); n > cfg.machines {
				vsched.Fail("%d machines started, demand and parallelism justify at most %d", n, cfg.machines)
			}
			sort.Strings(parts)
			outcomeStr = fmt.Sprintf("grants=%d dones=%d %s", l.grants, l.dones, strings.Join(parts, " "))
		})
	}
}

// stopMachine kills the machine and returns once the driver has seen it stop, so that
// from the next scheduling point on the stop is a fact of the managed history.
func stopMachine(sys *vsys.System, m *exec.VerifC14sMachine) {
	sys.Kill(strings.TrimPrefix(m.Addr, "http://"))
	deadline := time.Now().Add(20 * time.Second)
	for m.State() != bigmachine.Stopped && time.Now().Before(deadline) {
		time.Sleep(200 * time.Microsecond)
	}
	// bigmachine publishes the new state first and closes the channels of its waiters
	// (which managed threads are parked on) right afterwards, outside its lock.
	time.Sleep(20 * time.Millisecond)
}

// firstUseBody: several tasks reach a cluster for the first time at once (what the
// first tasks of a session do); the executor must create ONE manager per cluster —
// the manager is what enforces the session's parallelism and machine limits, so two
// managers for one cluster double them.
func firstUseBody() {
	sys := vsys.New(2)
	sys.MaxMachines = 1
	vsched.Cleanup(sys.Stop)
	sess := exec.Start(exec.Bigmachine(sys), exec.Parallelism(2))
	const callers = 3
	got := make([]interface{}, callers+1)
	var wg vsched.WaitGroup
	for i := 0; i <= callers; i++ {
		i := i
		wg.Add(1)
		vsched.Go(fmt.Sprintf("task%d", i), func() {
			defer wg.Done()
			cluster := 0
			if i == callers {
				cluster = 1 // an exclusive task's own cluster, first used at the same time
			}
			m := exec.VerifC14sSessionManager(sess, cluster)
			vsched.Monitor(monKey, func() { got[i] = m })
		})
	}
	wg.Wait()
	vsched.Monitor(monKey, func() {
		for i := 1; i < callers; i++ {
			if got[i] != got[0] {
				vsched.Fail("two managers for one cluster: concurrent first uses of cluster 0 were given different machine managers (each enforces the parallelism limit on its own)")
			}
		}
		if got[callers] == got[0] {
			vsched.Fail("clusters 0 and 1 share a manager")
		}
		pub := exec.VerifC14sSessionManagers(sess)
		if len(pub) != 2 || pub[0] != got[0] || pub[1] != got[callers] {
			vsched.Fail("two managers for one cluster: the executor's published managers differ from the ones handed to the tasks")
		}
		outcomeStr = fmt.Sprintf("managers=%d", len(pub))
	})
}

var cfgs = []scenCfg{
	{name: "2x2/three-1proc", procsPer: 2, machines: 2, reqs: []int{1, 1, 1}, prios: []int{0, 0, 0}},
	{name: "2x2/whole+two-1proc", procsPer: 2, machines: 2, reqs: []int{0, 1, 1}, prios: []int{0, 0, 0}},
	{name: "1x2/whole+1proc-priority", procsPer: 2, machines: 1, reqs: []int{0, 1, 1}, prios: []int{1, 0, 0}},
	{name: "2x2/three-1proc/cancel", procsPer: 2, machines: 2, reqs: []int{1, 1, 1}, prios: []int{0, 1, 0}, cancels: 1},
	{name: "2x2/three-1proc/neterr", procsPer: 2, machines: 2, reqs: []int{1, 1, 1}, prios: []int{0, 0, 0}, netErrs: 1, remErrs: 1},
	{name: "2x2/two-1proc/stop", procsPer: 2, machines: 2, reqs: []int{1, 1}, prios: []int{0, 0}, stop: true},
	{name: "1x3/2+2+1-reservation", procsPer: 3, machines: 1, reqs: []int{2, 2, 1}, prios: []int{0, 0, 0}},
	// both machines half loaded; a whole-machine request (higher priority) cannot be placed and is
	// shelved with a reserved machine while a smaller, lower-priority one is granted on the other
	{name: "2x2/held+whole+1proc-shelved", procsPer: 2, machines: 2, reqs: []int{0, 1}, prios: []int{0, 1}, holds: 2, releaseAfter: 1},
	{name: "2x2/held+whole+two-1proc-shelved", procsPer: 2, machines: 2, reqs: []int{0, 1, 1}, prios: []int{0, 1, 1}, holds: 2, releaseAfter: 1},
}

var (
	flagLayer    = flag.String("layer", "C14", "property that owns this layer")
	flagRacePass = flag.Int("racepass", 0, "internal (race flavour): run the free-running manager pass with N rounds per requester")
)

func main() {
	vsys.Quiet()
	vsys.FastRetries()
	exec.ProbationTimeout = time.Hour
	vsched.RegisterNamer(reflect.TypeOf((*exec.Task)(nil)), func(k interface{}) string { return k.(*exec.Task).Name.String() })
	var mcs []*mc.Scenario
	for _, c := range cfgs {
		c := c
		mcs = append(mcs, &mc.Scenario{Name: c.name, Body: body(c), Outcome: func() string { return outcomeStr }, Grace: 3 * time.Second,
			SigGroup: "b/" + c.name, Class: classify})
	}
	mcs = append(mcs, &mc.Scenario{Name: "exec/manager-first-use", Body: firstUseBody, Outcome: func() string { return outcomeStr }, Grace: 3 * time.Second,
		SigGroup: "b/exec/manager-first-use", Class: classify})
	mc.ChildMain(mcs)
	if *flagRacePass > 0 {
		racePass(*flagRacePass)
		return
	}
	r := ev.Start(*flagLayer, "model_checking")
	bound, budget := 1, 50*time.Second
	if r.Thorough() {
		bound, budget = 2, 8*time.Minute
	}
	var plans []mc.Plan
	for _, c := range cfgs {
		plans = append(plans, mc.Plan{Scenario: c.name, Delay: true, Bound: bound, Budget: budget})
	}
	plans = append(plans, mc.Plan{Scenario: "exec/manager-first-use", Delay: true, Bound: bound + 1, Budget: budget})
	sum := mc.RunPlans(r, mcs, plans)
	cov := sum.Coverage("real machineManager.Do on verifsystem machines under the vsched scheduler; requesters offer/cancel/receive/Done(ok|remote|transport error), optional machine stop; all schedules with <= bound deviations x all environment choices; machine boot confined to a non-explored prelude; manager interactions observed in manager order via channel watches")
	if race := runRacePass(r); race != nil {
		cov["race_pass"] = race
	}
	out := map[string]interface{}{"coverage": cov, "violations": r.Violations(), "machinery": sum.Machinery, "violation_list": r.Pending()}
	b, _ := json.Marshal(out)
	fmt.Printf("LAYER %s\n", b)
	os.Exit(0)
}

func classify(e string) string {
	l := e
	if i := strings.IndexByte(l, '\n'); i >= 0 {
		l = l[:i]
	}
	switch {
	case strings.HasPrefix(l, "deadlock"):
		return "request-never-granted-or-deadlock"
	case strings.Contains(l, "two managers for one cluster"):
		return "two-managers-for-one-cluster"
	case strings.Contains(l, "oversubscribed"):
		return "oversubscribed"
	case strings.Contains(l, "probation"):
		return "work-on-probation-machine"
	case strings.Contains(l, "sorts before"):
		return "priority-order"
	case strings.Contains(l, "taskProcs") || strings.Contains(l, "still has"):
		return "procs-not-conserved"
	case strings.Contains(l, "more procs returned"):
		return "procs-returned-twice"
	case strings.Contains(l, "not queued"):
		return "grant-to-cancelled-request"
	case strings.Contains(l, "machines started"):
		return "too-many-machines"
	}
	return l
}
