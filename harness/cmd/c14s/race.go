package main

// Free-running pass of the live-manager layer (race flavour). A cooperative scheduler
// orders every hand-off, which blinds the race detector, and it only switches threads
// at synchronisation operations — an unsynchronised access (e.g. a requester reading a
// field of its queued request that the manager loop rewrites while it shuffles its
// heaps) is invisible to it. So the same manager is also run WITHOUT the scheduler
// (the vsched API passes through), with real goroutines offering, cancelling,
// receiving and returning procs, under the Go race detector. Auxiliary: sampled
// schedules, not exhaustive; every race report and every functional failure is a
// violation.

import (
	"bytes"
	"context"
	"encoding/json"
	"fmt"
	"os"
	osexec "os/exec"
	"runtime"
	"strings"
	"sync"
	"sync/atomic"
	"time"

	"github.com/grailbio/bigslice/exec"
	"verifh/ev"
	"verifh/vsys"
)

// racePass runs `rounds` offer/cancel/receive rounds on each of 6 requesters against a
// live manager on 2 machines x 2 procs and prints RACEPASS {json}.
func racePass(rounds int) {
	fails := map[string]int{}
	sys := vsys.New(2)
	sys.MaxMachines = 2
	sys.Keepalive = [3]time.Duration{50 * time.Millisecond, time.Minute, 10 * time.Second}
	defer sys.Stop()
	mgr := exec.VerifC14sNewManager(sys, 4, 1.0)
	ctx, cancelAll := context.WithCancel(context.Background())
	defer cancelAll()
	go mgr.Do(ctx)
	whole := mgr.Machprocs()
	recv := func(c <-chan *exec.VerifC14sMachine, what string) *exec.VerifC14sMachine {
		select {
		case m := <-c:
			return m
		case <-time.After(120 * time.Second):
			fails[what]++
			return nil
		}
	}
	// bring both machines up
	var held []*exec.VerifC14sMachine
	for i := 0; i < 2; i++ {
		c, _ := mgr.Offer(0, whole)
		if m := recv(c, "machines did not come up"); m != nil {
			held = append(held, m)
		}
	}
	for _, m := range held {
		m.Done(whole, nil)
	}
	var (
		wg                       sync.WaitGroup
		grants, cancels, stalled int64
	)
	for g := 0; g < 6; g++ {
		g := g
		wg.Add(1)
		go func() {
			defer wg.Done()
			for i := 0; i < rounds; i++ {
				procs := 1
				if (g+i)%4 == 0 {
					procs = whole // mixed sizes: whole-machine requests are often unplaceable for a while
				}
				c, cancel := mgr.Offer((g+i)%2, procs)
				switch (g*7 + i) % 3 {
				case 0: // give up at once
					cancel()
					atomic.AddInt64(&cancels, 1)
				case 1: // give up unless the grant is there after a short while
					runtime.Gosched()
					select {
					case m := <-c:
						atomic.AddInt64(&grants, 1)
						m.Done(procs, nil)
					default:
						cancel()
						atomic.AddInt64(&cancels, 1)
					}
				default: // wait for the grant
					select {
					case m := <-c:
						atomic.AddInt64(&grants, 1)
						runtime.Gosched()
						m.Done(procs, nil)
					case <-time.After(120 * time.Second):
						atomic.AddInt64(&stalled, 1)
						return
					}
				}
			}
		}()
	}
	wg.Wait()
	if stalled > 0 {
		fails["a request was not granted within 120 s although every other requester returns its procs"] += int(stalled)
	}
	// everything was returned or cancelled: a 1-proc and a whole-machine request must be granted
	for _, procs := range []int{1, whole} {
		c, _ := mgr.Offer(0, procs)
		if m := recv(c, fmt.Sprintf("idle manager did not grant a %d-proc request after the offer/cancel rounds", procs)); m != nil {
			m.Done(procs, nil)
		}
	}
	b, _ := json.Marshal(map[string]interface{}{"rounds": 6 * rounds, "grants": grants, "cancels": cancels, "fails": fails})
	fmt.Printf("RACEPASS %s\n", b)
}

// runRacePass executes the race-flavour binary with several GOMAXPROCS values.
func runRacePass(r *ev.Run) map[string]interface{} {
	bin := os.Getenv("VERIF_BIN_DIR") + "/c14s-race"
	if _, err := os.Stat(bin); err != nil {
		r.NotExhaustive("race pass skipped: " + bin + " not built")
		return nil
	}
	rounds := "300"
	if r.Thorough() {
		rounds = "3000"
	}
	total, reports, grants, cancels := 0, 0, 0, 0
	for _, procs := range []string{"2", "4", "16"} {
		cmd := osexec.Command(bin, "-racepass", rounds)
		cmd.Env = append(os.Environ(), "GOMAXPROCS="+procs, "GORACE=halt_on_error=0 exitcode=0")
		var out, errb bytes.Buffer
		cmd.Stdout, cmd.Stderr = &out, &errb
		err := cmd.Run()
		var res struct {
			Rounds, Grants, Cancels int
			Fails                   map[string]int
		}
		found := false
		for _, l := range strings.Split(out.String(), "\n") {
			if strings.HasPrefix(l, "RACEPASS ") {
				json.Unmarshal([]byte(l[9:]), &res)
				found = true
			}
		}
		if !found {
			fmt.Fprintf(os.Stderr, "MACHINERY-ERROR: c14s race pass (GOMAXPROCS=%s) produced no result: %v\n%s\n", procs, err, tailStr(errb.String(), 3000))
			r.NotExhaustive("race pass child failed (GOMAXPROCS=" + procs + ")")
			continue
		}
		total += res.Rounds
		grants += res.Grants
		cancels += res.Cancels
		for f, c := range res.Fails {
			r.Violate("C14/b/racepass/"+classify(f), fmt.Sprintf("free-running manager (GOMAXPROCS=%s, %d times): %s", procs, c, f), nil)
		}
		for _, blk := range strings.Split(errb.String(), "WARNING: DATA RACE")[1:] {
			reports++
			r.Violate("C14/b/data-race/"+raceSite(blk), "data race reported by the Go race detector in the free-running manager pass:\n"+head(blk, 2500),
				map[string]interface{}{"report": head(blk, 6000), "gomaxprocs": procs})
		}
	}
	return map[string]interface{}{"free_running_rounds": total, "grants": grants, "cancels": cancels, "race_reports": reports, "gomaxprocs": []int{2, 4, 16},
		"note": "dynamic happens-before race detection over sampled schedules of the live manager (auxiliary; not exhaustive)"}
}

func tailStr(s string, n int) string {
	if len(s) > n {
		return s[len(s)-n:]
	}
	return s
}

func head(s string, n int) string {
	if len(s) > n {
		return s[:n]
	}
	return s
}

// raceSite extracts the first bigslice frame of a race report as its identity.
func raceSite(blk string) string {
	for _, l := range strings.Split(blk, "\n") {
		l = strings.TrimSpace(l)
		if strings.Contains(l, "/repo/") || strings.Contains(l, "bigslice/exec") {
			if i := strings.LastIndex(l, "/"); i >= 0 {
				l = l[i+1:]
			}
			if j := strings.Index(l, " "); j > 0 {
				l = l[:j]
			}
			return l
		}
	}
	return "unknown-site"
}
