// C15 — task stores are commit-atomic; remote reads resume without gaps or repeats.
//
// Fault enumeration on the real exec.fileStore (on a fault-injecting vfs:// file
// system), exec.memoryStore and exec.retryReader (DESIGN.md §5 C15):
//
//  1. every history over {Create, Write 1-2 chunks, Commit(n), Discard(writer),
//     Open(off), Stat, Discard(entry)} on two (task, partition) keys up to a depth,
//     on both stores, step-wise against a map model (store.go);
//  2. for fileStore, every history again with a failure (error / partial write /
//     crash) at every underlying file operation in turn (deviation 1);
//     2b. a reader racing with discard / re-commit of the same entry: the writer's block
//     at every file-operation boundary of the reader (race.go);
//  3. retryReader over a 6-byte stream with every opener script over {deliver 1-3,
//     fail, deliver k then fail, open fails} up to length budget+2, with and without
//     eventual recovery (retry.go).
package main

import (
	"flag"
	"fmt"
	"os"
	"runtime"
	"runtime/debug"
	"runtime/pprof"
	"time"

	"github.com/grailbio/base/log"
	"verifh/ev"
)

type nopOut struct{}

func (nopOut) Level() log.Level                                      { return log.Off }
func (nopOut) Output(calldepth int, level log.Level, s string) error { return nil }

func budget(r *ev.Run) time.Duration {
	if r.Thorough() {
		return 15 * time.Minute
	}
	return 3 * time.Minute
}

var flagPart = flag.String("part", "all", "all|stores|retry (debugging aid; anything but all marks the run not exhaustive)")

func main() {
	r := ev.Start("C15", "fault_enumeration")
	if r.Replay != "" {
		ev.Fatal("replay: re-run the check; the violation detail names history and fault (%s)", r.Replay)
	}
	log.SetOutputter(nopOut{})
	debug.SetGCPercent(1600) // millions of tiny short-lived runs: the live heap is a few MB
	if pf := os.Getenv("C15_CPUPROFILE"); pf != "" {
		f, _ := os.Create(pf)
		pprof.StartCPUProfile(f)
		defer pprof.StopCPUProfile()
	}
	vfsSelfCheck()
	workers := runtime.NumCPU()

	depth := 4
	if r.Thorough() {
		depth = 5
	}
	if *flagPart != "all" {
		r.NotExhaustive("-part " + *flagPart)
	}
	t0 := time.Now()
	st := newStoreStats()
	if *flagPart != "retry" {
		st = runStores(r, depth, workers)
	}
	ra := &raceStats{outcomes: ev.NewCounter(), boundaries: ev.NewCounter()}
	if *flagPart != "retry" {
		ra = runTwoActor(r)
	}
	t1 := time.Now()
	rt := &retryStats{outcomes: ev.NewCounter()}
	if *flagPart != "stores" {
		rt = runRetry(r, workers)
	}
	t2 := time.Now()

	cov := ev.Coverage{
		"evaluations":         st.runs + rt.runs + ra.runs,
		"distinct_nontrivial": st.faultsFired + rt.runsWithFailure + ra.inside,
		"rule": fmt.Sprintf("stores: every history of <=%d ops over {Create(k), Write1/Write2(w), Commit(w), Discard(w), Open(k,off in {0,1,len-1,len,len+1}), Stat(k), Discard(k)} on 2 keys x %d key configurations, ops enabled by the model state, on memoryStore and on fileStore over vfs://; each fileStore history re-run once per (file-operation label of its fault-free run) x (fail | failpartial for Write | crash); a fault run is non-trivial when the armed label fired. re-commit histories: every sequence over {WC(k,1..3) = Create+Write of 3/5/6 bytes+Commit, Open(k,0), Open(k,1), Stat(k), DiscardEntry(k)} up to the depths listed under recommit_plans, on one and on two keys, both stores, with the same single-fault sweep where the plan says sweep=true. "+
			"retryReader: DFS over all opener scripts over {D1,D2,D3,F,P1,P2,P3,O} up to length budget+2=%d (deliveries larger than the read buffer are omitted as duplicates; extensions of scripts whose tail is never consumed are pruned as equivalent), x {after the script: recover | open-fails; and, for scripts up to length %d, read-fails-0 | read-returns-1-byte-and-error | deliver-1-then-fail} x {EOF separate, EOF with last bytes} x read-buffer sizes x the VALUE of the transient failure (a plain error for every configuration; io.ErrUnexpectedEOF, io.ErrClosedPipe, io.ErrNoProgress, context.DeadlineExceeded of a sub-call, base-errors Net / Unavailable / Temporary for the 4-byte buffer and scripts one step shorter; in thorough for every buffer and the full length); non-trivial = at least one scripted failure was consumed",
			depth, len(keyConfigs), rt.maxLen, rt.extraTailMaxLen),
		"stores": map[string]interface{}{
			"depth":                          depth,
			"histories_memoryStore":          st.histories["memoryStore"],
			"histories_fileStore":            st.histories["fileStore"],
			"histories_recommit_memoryStore": st.histories["memoryStore/recommit"],
			"histories_recommit_fileStore":   st.histories["fileStore/recommit"],
			"recommit_plans":                 st.recommit,
			"fault_runs":                     st.faultRuns,
			"fault_runs_where_label_fired":   st.faultsFired,
			"fault_runs_by_mode":             st.byMode,
			"fault_points_by_fsop_in_op":     st.faultPoints.Keys(),
			"distinct_op_outcomes":           st.outcomes.Distinct(),
			"op_outcomes":                    st.outcomes.Keys(),
			"distinct_model_states":          st.states.Distinct(),
			"ops_skipped_writer_missing":     st.skipped,
			"writes_failed_without_a_fault":  st.taintedNoFault,
			"violating_runs":                 st.violRuns,
		},
		"two_actor": map[string]interface{}{
			"rule":                 "reader R = Open(off)+Read to EOF (4-byte buffer)+Close+Stat of a committed entry; writer W = one atomic block {Discard;Create;Write;Commit} | {Create;Write;Commit} | {Discard} on the same store object and key, with old/new data lengths from a small set (shorter, longer, equal) and off in {0, len/2, len}; W's whole block is run before EVERY file operation of R (vfs.BeforeOp(k); for memoryStore, which makes no file operations, before every store/reader call of R) and once after R: all interleavings at file-operation granularity with W atomic. A run is non-trivial when W ran strictly inside R. Oracle: R gets an error, all of the old commit from off, or all of W's commit from off (only if W's Commit returned nil); Stat an error or the (size,records) of one of the two. ASSUMED file-system behaviour (verifh/vfs, as the local grailfile implementation on POSIX: Create writes a temporary file renamed over the path at Close, Remove unlinks): an already opened file keeps reading the content it was opened on after the path is replaced or removed.",
			"runs":                 ra.runs,
			"runs_with_W_inside_R": ra.inside,
			"boundaries_exercised": ra.boundaries.Keys(),
			"distinct_outcomes":    ra.outcomes.Distinct(),
			"outcomes":             ra.outcomes.Keys(),
			"violating_runs":       ra.violRuns,
		},
		"retry_reader": map[string]interface{}{
			"budget_from_policy_object":       rt.budget,
			"scripts":                         rt.scripts,
			"scripts_pruned_tail_unconsumed":  rt.pruned,
			"runs":                            rt.runs,
			"runs_by_tail":                    tailCounts(rt),
			"runs_with_consumed_failure":      rt.runsWithFailure,
			"runs_ending_in_error":            rt.errRuns,
			"error_runs_with_consecutive>=B":  rt.errRunsConsecutive,
			"distinct_outcomes":               rt.outcomes.Distinct(),
			"outcomes":                        rt.outcomes.Keys(),
			"max_script_len":                  rt.maxLen,
			"configs(eof_with_data,buf_size,failure_value)": rt.configs,
			"violating_runs":                  rt.violRuns,
		},
		"distinct_outcomes": st.outcomes.Distinct() + rt.outcomes.Distinct() + ra.outcomes.Distinct(),
		"wall_s_stores":     t1.Sub(t0).Seconds(),
		"wall_s_retry":      t2.Sub(t1).Seconds(),
	}
	r.Assume = append(r.Assume,
		"file system = verifh/vfs: a failed Close publishes nothing, an open file reads the content committed when it was opened, no artificial short reads",
		"retryPolicy replaced by a wrapper around the REAL policy object that keeps its keep-going decision and zeroes the delay")
	pprof.StopCPUProfile()
	r.Finish(cov)
}

func tailCounts(rt *retryStats) map[string]int64 {
	m := map[string]int64{}
	for i, n := range rt.byTail {
		m[tailName[i]] = n
	}
	return m
}
