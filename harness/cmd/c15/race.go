package main

import (
	"bytes"
	"context"
	"fmt"
	"io"
	"sort"
	"strings"

	"github.com/grailbio/bigslice/exec"
	"verifh/ev"
	"verifh/vfs"
)

// Two-actor layer: a reader racing with a writer that discards and/or re-commits the
// same (task, partition) on the same store object.
//
//	actor R: Open(offset); Read until EOF (4-byte buffer); Close; Stat
//	actor W: one atomic block out of
//	           {Discard(entry); Create; Write; Commit}   (re-run of the task)
//	           {Create; Write; Commit}                    (commit over the old entry)
//	           {Discard(entry)}
//
// W's block is executed, whole, at EVERY boundary of R: for fileStore before each
// file operation R makes (vfs.BeforeOp(k)), for memoryStore (which makes none) before
// each store/reader call of R, and once after R. That is every interleaving of R and
// W at file-operation granularity with W atomic.
//
// Oracle (property statement: "exactly the committed bytes (from any requested offset)
// and record count are returned until the entry is discarded"): R gets an error, or
// ALL of the old commit from its offset, or ALL of W's commit from its offset (only if
// W's Commit returned nil) -- never a mix, a trailer, or a silent prefix; Stat returns
// an error or the (size, records) pair of one of those commits.

type raceStats struct {
	runs, inside int64 // all runs; runs in which W ran strictly inside R (after its first, before its last boundary)
	violRuns     int64
	outcomes     *ev.Counter
	boundaries   *ev.Counter
}

type wKind int

const (
	wDiscardCommit wKind = iota
	wCommitOver
	wDiscardOnly
	nWKinds
)

var wName = [...]string{"discard+recommit", "commit-over", "discard-only"}

// payload returns distinct non-zero bytes; the old commit uses 'a'.., the new 'A'..
// (never 0..8, so that record-count trailer bytes are recognisable).
func payload(first byte, n int) []byte {
	b := make([]byte, n)
	for i := range b {
		b[i] = first + byte(i)
	}
	return b
}

type raceCase struct {
	kind       string // store
	oldLen     int
	newLen     int
	w          wKind
	off        int64
	k          int // boundary at which W runs
	boundaries int // filled by the run: number of boundaries R had
}

type raceObs struct {
	openErr, readErr, statErr error
	got                       []byte
	size, recs                int64
	wCommitted                bool
	wRan                      bool
	afterEnd                  bool   // W did not fit inside R: it was run after R's last operation
	atOp                      string // name of R's operation before which W ran
}

const (
	recsOld = 111
	recsNew = 222
)

func (c raceCase) old() []byte { return payload('a', c.oldLen) }
func (c raceCase) new() []byte { return payload('A', c.newLen) }

func runRaceCase(c *raceCase, vol *vfs.FS) raceObs {
	ctx := context.Background()
	var ob raceObs
	key := keyConfigs[0][0]
	var store exec.Store
	isFile := c.kind == "fileStore"
	if isFile {
		vol.Reset()
		store = exec.VerifC15FileStore(vol.Prefix() + "store")
	} else {
		store = exec.VerifC15MemoryStore()
	}
	commit := func(data []byte, n int64) error {
		w, err := store.Create(ctx, key.task, key.part)
		if err != nil {
			return err
		}
		if _, err := w.Write(data); err != nil {
			w.Discard(ctx)
			return err
		}
		return w.Commit(ctx, n)
	}
	if err := commit(c.old(), recsOld); err != nil {
		ev.Fatal("c15 two-actor: initial commit failed: %v", err)
	}
	W := func() {
		ob.wRan = true
		if c.w == wDiscardCommit || c.w == wDiscardOnly {
			_ = store.Discard(ctx, key.task, key.part)
		}
		if c.w != wDiscardOnly {
			ob.wCommitted = commit(c.new(), recsNew) == nil
		}
	}
	// boundaries: vfs operations for fileStore, harness steps for memoryStore
	step := 0
	yield := func(name string) {
		if isFile {
			return
		}
		if step == c.k {
			ob.atOp = name
			W()
		}
		step++
	}
	base := 0
	if isFile {
		base = vol.Ops()
		vol.BeforeOp(base+c.k, W)
	}
	// ---- actor R
	yield("Open")
	rc, err := store.Open(ctx, key.task, key.part, c.off)
	ob.openErr = err
	if err == nil {
		buf := make([]byte, readBuf)
		for i := 0; ; i++ {
			yield("Read")
			n, err := rc.Read(buf)
			ob.got = append(ob.got, buf[:n]...)
			if err == io.EOF {
				break
			}
			if err != nil {
				ob.readErr = err
				break
			}
			if i > 1000 {
				ob.readErr = fmt.Errorf("harness: no end after 1000 reads")
				break
			}
		}
		yield("Close")
		_ = rc.Close()
	}
	yield("Stat")
	info, err := store.Stat(ctx, key.task, key.part)
	ob.size, ob.recs, ob.statErr = info.Size, info.Records, err
	// ---- end of R
	if isFile {
		c.boundaries = vol.Ops() - base
		if ob.wRan {
			ob.atOp = opAfterW(vol.Log(), base, c.k)
		}
	} else {
		c.boundaries = step
	}
	if !ob.wRan {
		// the boundary after R's last operation
		ob.atOp = "end"
		ob.afterEnd = true
		W()
	}
	return ob
}

// opAfterW names R's k-th file operation: W ran right before it, so R's first k
// operations are log[base:base+k]; then come W's operations, then R's k-th. W's
// block always ends with the Close of its commit or with a Remove.
func opAfterW(log []string, base, k int) string {
	i := base + k
	// skip W's entries: they are the ones up to and including the last Close:/Remove:
	// before the next R entry; R never issues Close (only CloseR), Create, Write or Remove.
	for i < len(log) {
		op := log[i][:strings.IndexByte(log[i], ':')]
		if op == "Create" || op == "Write" || op == "Close" || op == "Remove" {
			i++
			continue
		}
		break
	}
	if i >= len(log) {
		return "end"
	}
	return log[i][:strings.IndexByte(log[i], ':')]
}

func fromOff(b []byte, off int64) []byte {
	if off > int64(len(b)) {
		return []byte{}
	}
	return b[off:]
}

// judgeRace returns "" or a violation class, plus a short outcome string.
func judgeRace(c *raceCase, ob raceObs) (class, msg, outcome string) {
	old, nw := c.old(), c.new()
	oldT, newT := fromOff(old, c.off), fromOff(nw, c.off)
	read := "open-error"
	switch {
	case ob.openErr != nil:
	case ob.readErr != nil:
		read = "read-error"
	case bytes.Equal(ob.got, oldT) && ob.wCommitted && bytes.Equal(ob.got, newT):
		read = "old=new" // both empty
	case bytes.Equal(ob.got, oldT):
		read = "old"
	case ob.wCommitted && bytes.Equal(ob.got, newT):
		read = "new"
	default:
		switch {
		case ob.wCommitted && len(ob.got) < len(newT) && bytes.HasPrefix(newT, ob.got):
			class = "silent-prefix-of-new-commit"
		case ob.wCommitted && len(ob.got) > len(newT) && bytes.HasPrefix(ob.got, newT):
			class = "new-commit-plus-foreign-bytes"
		case len(ob.got) < len(oldT) && bytes.HasPrefix(oldT, ob.got):
			class = "silent-prefix-of-old-commit"
		case len(ob.got) > len(oldT) && bytes.HasPrefix(ob.got, oldT):
			class = "old-commit-plus-foreign-bytes"
		default:
			class = "bytes-of-no-commit"
		}
		read = class
		msg = fmt.Sprintf("reader at offset %d got %v; old commit from there %v; W's commit from there %v (W committed: %v)", c.off, ob.got, oldT, newT, ob.wCommitted)
	}
	stat := "stat-error"
	if ob.statErr == nil {
		switch {
		case ob.size == int64(len(old)) && ob.recs == recsOld:
			stat = "stat-old"
		case ob.wCommitted && ob.size == int64(len(nw)) && ob.recs == recsNew:
			stat = "stat-new"
		default:
			stat = "stat-of-no-commit"
			if class == "" {
				class = "stat-of-no-commit"
				msg = fmt.Sprintf("Stat returned size=%d records=%d; old commit (%d,%d), W's commit (%d,%d) (W committed: %v)", ob.size, ob.recs, len(old), recsOld, len(nw), recsNew, ob.wCommitted)
			}
		}
	}
	return class, msg, read + "/" + stat
}

func sizeRel(c *raceCase) string {
	switch {
	case c.w == wDiscardOnly:
		return "none"
	case c.newLen < c.oldLen:
		return "shorter"
	case c.newLen > c.oldLen:
		return "longer"
	}
	return "equal"
}

type raceCand struct {
	rank  string
	c     raceCase
	class string
	count int
}

func runTwoActor(r *ev.Run) *raceStats {
	st := &raceStats{outcomes: ev.NewCounter(), boundaries: ev.NewCounter()}
	vol := vfs.New("c15race")
	lens := []int{3, 5, 6}
	if r.Thorough() {
		lens = []int{0, 1, 3, 5, 6, 9}
	}
	cands := map[string]*raceCand{}
	for _, kind := range []string{"memoryStore", "fileStore"} {
		for _, oldLen := range lens {
			offs := map[int64]bool{0: true, int64(oldLen / 2): true, int64(oldLen): true}
			var offList []int64
			for o := range offs {
				offList = append(offList, o)
			}
			sort.Slice(offList, func(i, j int) bool { return offList[i] < offList[j] })
			for w := wKind(0); w < nWKinds; w++ {
				newLens := lens
				if w == wDiscardOnly {
					newLens = []int{0}
				}
				for _, newLen := range newLens {
					for _, off := range offList {
						for k := 0; ; k++ {
							c := raceCase{kind: kind, oldLen: oldLen, newLen: newLen, w: w, off: off, k: k}
							ob := runRaceCase(&c, vol)
							st.runs++
							if k > 0 && !ob.afterEnd {
								st.inside++
							}
							class, _, oc := judgeRace(&c, ob)
							st.outcomes.Add(fmt.Sprintf("%s:W=%s:before-%s:%s", kind, wName[w], ob.atOp, oc))
							st.boundaries.Add(kind + ":before-" + ob.atOp)
							if class != "" {
								st.violRuns++
								sig := fmt.Sprintf("C15/%s/two-actor/%s/W=%s-before-reader-op-%s", kind, class, wName[w], ob.atOp)
								rank := fmt.Sprintf("%02d|%02d|%02d|%02d|%d", k, oldLen, newLen, off, w)
								cd := cands[sig]
								if cd == nil {
									cd = &raceCand{rank: "~"}
									cands[sig] = cd
								}
								cd.count++
								if rank < cd.rank {
									cd.rank, cd.c, cd.class = rank, c, class
								}
							}
							if ob.afterEnd {
								break // that was the boundary after R's last operation
							}
						}
					}
				}
			}
		}
	}
	var sigs []string
	for s := range cands {
		sigs = append(sigs, s)
	}
	sort.Strings(sigs)
	for _, sig := range sigs {
		cd := cands[sig]
		var ob raceObs
		var msg string
		for i := 0; i < 2; i++ { // deterministic: re-execute twice
			c := cd.c
			ob = runRaceCase(&c, vol)
			var c2 string
			if c2, msg, _ = judgeRace(&c, ob); c2 != cd.class {
				ev.Fatal("c15 two-actor: violation %s not reproduced on re-execution", sig)
			}
		}
		c := cd.c
		what := fmt.Sprintf("%s, reader racing with %s (new data %s than old): W's block run before the reader's operation #%d (%s): %s", c.kind, wName[c.w], sizeRel(&c), c.k, ob.atOp, msg)
		r.Violate(sig, what, map[string]interface{}{
			"store": c.kind, "old_commit": bs(c.old()), "old_records": recsOld, "W": wName[c.w], "W_commit": bs(c.new()), "W_records": recsNew, "W_commit_succeeded": ob.wCommitted,
			"reader_offset": c.off, "W_runs_before_reader_operation": c.k, "that_operation": ob.atOp,
			"reader_got": bs(ob.got), "open_err": fmt.Sprint(ob.openErr), "read_err": fmt.Sprint(ob.readErr),
			"stat": fmt.Sprintf("size=%d records=%d err=%v", ob.size, ob.recs, ob.statErr), "msg": msg, "violating_runs_with_this_signature": cd.count})
	}
	c := raceCase{kind: "fileStore", oldLen: 5, newLen: 3, w: wDiscardCommit, off: 2, k: 1}
	ob := runRaceCase(&c, vol)
	_, _, oc := judgeRace(&c, ob)
	r.Sample(map[string]interface{}{"two_actor_case": "fileStore: old commit 5 bytes; reader Open(off=2)+ReadAll+Close+Stat; W = Discard+Create+Write 3 bytes+Commit run before the reader's file operation #1",
		"that_operation": ob.atOp, "reader_boundaries": c.boundaries, "vfs_log": vol.Log(), "outcome": oc})
	return st
}
