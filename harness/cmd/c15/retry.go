package main

import (
	"bytes"
	"context"
	"errors"
	"fmt"
	"io"
	"sort"
	"strings"
	"sync"
	"sync/atomic"
	"time"

	berrors "github.com/grailbio/base/errors"
	"github.com/grailbio/base/retry"
	"github.com/grailbio/bigslice/exec"
	"verifh/ev"
)

// zeroDelay keeps the keep-going decision of the real policy object and drops the wait.
type zeroDelay struct{ p retry.Policy }

func (z zeroDelay) Retry(n int) (bool, time.Duration) {
	ok, _ := z.p.Retry(n)
	return ok, 0
}

var stream = []byte("abcdef") // all bytes distinct: any skip or repeat is visible

type action uint8

const (
	aD1 action = iota // Read delivers up to 1 byte, reader stays usable
	aD2
	aD3
	aF  // Read fails, nothing delivered
	aP1 // Read returns (1 byte, error) in one call
	aP2
	aP3
	aO // OpenAt fails
	nActions
)

var actName = [...]string{"D1", "D2", "D3", "F", "P1", "P2", "P3", "O"}

func scriptString(s []action) string {
	n := make([]string, len(s))
	for i, a := range s {
		n[i] = actName[a]
	}
	return strings.Join(n, " ")
}

func isFailure(a action) bool { return a >= aF }

// usable reports whether a is a distinct action for a read buffer of n bytes: a
// delivery larger than the buffer behaves exactly like one of the buffer's size.
func usable(a action, n int) bool {
	switch a {
	case aD2, aP2:
		return n >= 2
	case aD3, aP3:
		return n >= 3
	}
	return true
}

var errScripted = errors.New("scripted transient failure")

// errKinds: the VALUE of a transient failure. retryReader documents that it retries
// "regardless of error kind/severity ... such as aws-sdk or io.UnexpectedEOF"; a reader
// that special-cases one of these values (e.g. takes a cut stream for its end) breaks
// the property only for that value.
var errKinds = []struct {
	name string
	err  error
}{
	{"plain", errScripted},
	{"io.ErrUnexpectedEOF", io.ErrUnexpectedEOF},
	{"io.ErrClosedPipe", io.ErrClosedPipe},
	{"io.ErrNoProgress", io.ErrNoProgress},
	{"context.DeadlineExceeded(of a sub-call)", context.DeadlineExceeded},
	{"base-errors-Net", berrors.E(berrors.Net, "scripted: connection reset")},
	{"base-errors-Unavailable", berrors.E(berrors.Unavailable, "scripted: unavailable")},
	{"base-errors-Temporary-severity", berrors.E(berrors.Temporary, "scripted: temporary")},
}

// tail says what the opener does once the script is used up.
type tail uint8

const (
	tRecover         tail = iota // every OpenAt and Read works
	tOpenFail                    // every OpenAt fails (and every Read on a reader that is still open)
	tReadFail                    // every OpenAt works, every Read fails at once with 0 bytes (a stream that always breaks at the same byte)
	tPartialFail                 // every OpenAt works, every Read returns (1 byte, error): never any progress
	tDeliverThenFail             // every OpenAt works, the first Read of each reader delivers 1 byte, its next Read fails: slow progress
	nTails
)

var tailName = [...]string{"recover", "open-fails", "read-fails-0", "read-returns-1-byte-and-error", "deliver-1-then-fail"}

type giveUp struct{}

// scripted is the opener: it serves stream[offset:] and consumes one script action
// per Read (or per OpenAt, for O). After the script it behaves as its tail says (the
// comment below is about the two basic tails): with recovery everything works,
// without it every OpenAt and Read fails.
type scripted struct {
	script      []action
	tail        tail
	eofWithData bool
	errKind     int
	limit       int // failures after which the harness stops the run (never-gives-up guard)

	pos       int
	opens     []int64
	fails     int
	consec    int
	maxConsec int
	misuse    string
}

func (s *scripted) fail() error {
	s.fails++
	s.consec++
	if s.consec > s.maxConsec {
		s.maxConsec = s.consec
	}
	if s.fails > s.limit {
		panic(giveUp{})
	}
	return errKinds[s.errKind].err
}

func (s *scripted) OpenAt(ctx context.Context, off int64) (io.ReadCloser, error) {
	s.opens = append(s.opens, off)
	if s.pos < len(s.script) {
		if s.script[s.pos] == aO {
			s.pos++
			return nil, s.fail()
		}
	} else if s.tail == tOpenFail {
		return nil, s.fail()
	}
	if off < 0 {
		return nil, s.fail()
	}
	if off > int64(len(stream)) {
		off = int64(len(stream))
	}
	return &sreader{s: s, off: int(off)}, nil
}

func (s *scripted) String() string { return "scripted" }

type sreader struct {
	s         *scripted
	off       int
	closed    bool
	tailReads int
}

func (r *sreader) Close() error {
	r.closed = true
	return nil
}

func (r *sreader) deliver(p []byte, k int) int {
	n := k
	if n > len(p) {
		n = len(p)
	}
	if n > len(stream)-r.off {
		n = len(stream) - r.off
	}
	copy(p, stream[r.off:r.off+n])
	r.off += n
	return n
}

func (r *sreader) Read(p []byte) (int, error) {
	s := r.s
	if r.closed {
		s.misuse = "Read on a closed reader"
		return 0, s.fail()
	}
	k := len(p)
	if s.pos < len(s.script) {
		a := s.script[s.pos]
		s.pos++
		switch a {
		case aF, aO:
			return 0, s.fail()
		case aP1, aP2, aP3:
			return r.deliver(p, int(a-aP1)+1), s.fail()
		}
		k = int(a-aD1) + 1
	} else {
		switch s.tail {
		case tOpenFail, tReadFail:
			return 0, s.fail()
		case tPartialFail:
			return r.deliver(p, 1), s.fail()
		case tDeliverThenFail:
			r.tailReads++
			if r.tailReads > 1 {
				return 0, s.fail()
			}
			k = 1
		}
	}
	if r.off >= len(stream) {
		s.consec = 0
		return 0, io.EOF
	}
	n := r.deliver(p, k)
	s.consec = 0
	if s.eofWithData && r.off >= len(stream) {
		return n, io.EOF
	}
	return n, nil
}

type retryCfg struct {
	eofWithData bool
	bufSize     int
	errKind     int
}

type retryStats struct {
	budget, maxLen              int
	scripts, pruned             int64
	runs, runsWithFailure       int64
	errRuns, errRunsConsecutive int64
	violRuns                    int64
	outcomes                    *ev.Counter
	configs                     []string
	extraTailMaxLen             int
	byTail                      [nTails]int64
}

type retryExplorer struct {
	r  *ev.Run
	st *retryStats
	B  int
	// the tails beyond recover/open-fails are run for scripts up to this length
	extraTailMaxLen int
	stop            atomic.Bool
	mu              sync.Mutex
	cands           map[string]*retryCand
}

// retryCand is the simplest violating run seen so far for one signature.
type retryCand struct {
	rank   string
	script []action
	cfg    retryCfg
	tail   tail
	class  string
	count  int
}

// finish reports the shortest violating script per signature after two re-executions.
func (ex *retryExplorer) finish() {
	var sigs []string
	for s := range ex.cands {
		sigs = append(sigs, s)
	}
	sort.Strings(sigs)
	for _, sig := range sigs {
		c := ex.cands[sig]
		var ob retryObs
		var msg string
		for i := 0; i < 2; i++ {
			ob = ex.runOne(c.script, c.cfg, c.tail)
			var c2 string
			if c2, msg = ex.judge(c.script, c.cfg, c.tail, ob); c2 != c.class {
				ev.Fatal("c15: retryReader violation %s not reproduced on re-execution of [%s]", sig, scriptString(c.script))
			}
		}
		ex.r.Violate(sig, fmt.Sprintf("retryReader: %s; script [%s] then %s; eofWithData=%v buf=%d failure-value=%s: %s", c.class, scriptString(c.script), tailName[c.tail], c.cfg.eofWithData, c.cfg.bufSize, errKinds[c.cfg.errKind].name, msg),
			map[string]interface{}{"script": scriptString(c.script), "after_the_script": tailName[c.tail], "eof_with_last_bytes": c.cfg.eofWithData, "read_buffer": c.cfg.bufSize, "failure_value": errKinds[c.cfg.errKind].name,
				"delivered": string(ob.out), "stream": string(stream), "final_error": fmt.Sprint(ob.final), "open_offsets": ob.s.opens,
				"failures_met": ob.s.fails, "max_consecutive_failures": ob.s.maxConsec, "budget": ex.B, "msg": msg,
				"violating_runs_with_this_signature": c.count})
	}
}

type retryObs struct {
	out      []byte
	final    error
	gaveUp   bool
	noEnd    bool
	consumed int
	s        *scripted
}

func (ex *retryExplorer) runOne(script []action, cfg retryCfg, tl tail) (ob retryObs) {
	s := &scripted{script: script, tail: tl, eofWithData: cfg.eofWithData, errKind: cfg.errKind, limit: len(script) + 10*(ex.B+2)}
	ob.s = s
	defer func() {
		if e := recover(); e != nil {
			if _, ok := e.(giveUp); !ok {
				panic(e)
			}
			ob.gaveUp = true
			ob.consumed = s.pos
		}
	}()
	rr := exec.VerifC15NewRetryReader(context.Background(), s)
	buf := make([]byte, cfg.bufSize)
	for i := 0; ; i++ {
		n, err := rr.Read(buf)
		ob.out = append(ob.out, buf[:n]...)
		if err != nil {
			ob.final = err
			break
		}
		if i > 200 {
			ob.noEnd = true
			break
		}
	}
	_ = rr.Close()
	ob.consumed = s.pos
	return ob
}

// judge applies the oracle: exactly the stream, or an error once the budget is used up.
func (ex *retryExplorer) judge(script []action, cfg retryCfg, tl tail, ob retryObs) (class, msg string) {
	switch {
	case ob.gaveUp:
		return "no-error-although-budget-exhausted", fmt.Sprintf("reader still retrying after %d failures (%d consecutive), budget %d", ob.s.fails, ob.s.maxConsec, ex.B)
	case ob.noEnd:
		return "no-end-of-stream", "more than 200 Reads without EOF or error"
	case ob.final == io.EOF:
		if !bytes.Equal(ob.out, stream) {
			return classOfBytes(ob.out), fmt.Sprintf("EOF after delivering %q, stream is %q", ob.out, stream)
		}
		return "", ""
	}
	// an error
	if !bytes.HasPrefix(stream, ob.out) {
		return classOfBytes(ob.out), fmt.Sprintf("delivered %q (not a prefix of %q) before error %v", ob.out, stream, ob.final)
	}
	// "budget": the policy object refuses retry number B. The reader may count
	// consecutive or total failures; an error is premature only if even the TOTAL
	// number of failures it met is below B.
	if ob.s.fails < ex.B {
		return "error-before-retry-budget-exhausted", fmt.Sprintf("error %v after only %d failures (max %d consecutive); the policy object allows retries up to number %d", ob.final, ob.s.fails, ob.s.maxConsec, ex.B-1)
	}
	return "", ""
}

func classOfBytes(out []byte) string {
	// repeated: some byte occurs twice; otherwise some byte is missing
	seen := map[byte]bool{}
	rep := false
	for _, b := range out {
		if seen[b] {
			rep = true
		}
		seen[b] = true
	}
	if rep {
		return "bytes-repeated"
	}
	return "bytes-skipped" // including a clean EOF before the end of the stream
}

func firstFailure(script []action) string {
	for _, a := range script {
		if isFailure(a) {
			n := actName[a]
			if n[0] == 'P' {
				n = "P" // partial read then failure, any size
			}
			return n
		}
	}
	return "none"
}

func (ex *retryExplorer) explore(script []action, cfg retryCfg, maxLen int) {
	if ex.stop.Load() {
		return
	}
	if ex.r.OverBudget(budget(ex.r)) {
		if !ex.stop.Swap(true) {
			ex.r.NotExhaustive("retryReader scripts: soft time budget hit at [" + scriptString(script) + "]")
		}
		return
	}
	atomic.AddInt64(&ex.st.scripts, 1)
	consumedAll := true
	for tl := tail(0); tl < nTails; tl++ {
		if tl > tOpenFail && len(script) > ex.extraTailMaxLen {
			continue
		}
		ob := ex.runOne(script, cfg, tl)
		atomic.AddInt64(&ex.st.runs, 1)
		atomic.AddInt64(&ex.st.byTail[tl], 1)
		nfail := 0
		for _, a := range script[:ob.consumed] {
			if isFailure(a) {
				nfail++
			}
		}
		if nfail > 0 {
			atomic.AddInt64(&ex.st.runsWithFailure, 1)
		}
		if ob.consumed < len(script) {
			consumedAll = false
		}
		class, _ := ex.judge(script, cfg, tl, ob)
		oc := "error"
		if ob.final == io.EOF {
			oc = "eof"
		} else if ob.final != nil {
			atomic.AddInt64(&ex.st.errRuns, 1)
			if ob.s.maxConsec >= ex.B {
				atomic.AddInt64(&ex.st.errRunsConsecutive, 1)
			}
		}
		ex.st.outcomes.Add(fmt.Sprintf("%s:delivered=%d:failures=%d:maxconsec=%d:reopens=%d", oc, len(ob.out), ob.s.fails, ob.s.maxConsec, len(ob.s.opens)))
		if ob.s.misuse != "" {
			ex.st.outcomes.Add("misuse:" + ob.s.misuse)
		}
		if class != "" {
			atomic.AddInt64(&ex.st.violRuns, 1)
			sig := fmt.Sprintf("C15/retryReader/%s/first-failure=%s", class, firstFailure(script[:ob.consumed]))
			if class == "no-error-although-budget-exhausted" {
				sig = fmt.Sprintf("C15/retryReader/%s/after-script=%s", class, tailName[tl])
			}
			if cfg.errKind != 0 {
				sig += "/failure-value=" + errKinds[cfg.errKind].name
			}
			rank := fmt.Sprintf("%03d|%s|%d|%v|%02d", len(script), scriptString(script), tl, cfg.eofWithData, cfg.bufSize)
			ex.mu.Lock()
			c := ex.cands[sig]
			if c == nil {
				c = &retryCand{rank: "~"}
				ex.cands[sig] = c
			}
			c.count++
			if rank < c.rank {
				c.rank, c.script, c.cfg, c.tail, c.class = rank, append([]action(nil), script...), cfg, tl, class
			}
			ex.mu.Unlock()
		}
	}
	if len(script) >= maxLen {
		return
	}
	if !consumedAll {
		// the reader finished before the end of the script: every extension behaves the same
		atomic.AddInt64(&ex.st.pruned, 1)
		return
	}
	for a := action(0); a < nActions; a++ {
		if a == aO && len(script) > 0 && !isFailure(script[len(script)-1]) {
			continue // a reader is open: the next event cannot be an OpenAt
		}
		if !usable(a, cfg.bufSize) {
			continue
		}
		ex.explore(append(append([]action(nil), script...), a), cfg, maxLen)
	}
}

func runRetry(r *ev.Run, workers int) *retryStats {
	st := &retryStats{outcomes: ev.NewCounter()}
	real := exec.VerifC15RetryPolicy()
	zp := zeroDelay{real}
	B := -1
	for n := 0; n < 1000; n++ {
		if ok, _ := zp.Retry(n); !ok {
			B = n
			break
		}
	}
	if B < 1 {
		r.NotExhaustive("retryReader: the policy object never refuses a retry (no finite budget); retryReader part skipped")
		return st
	}
	exec.VerifC15SetRetryPolicy(zp)
	st.budget = B
	st.maxLen = B + 2
	cfgs := []retryCfg{{false, 4, 0}, {true, 4, 0}, {false, 1, 0}, {true, 1, 0}}
	if r.Thorough() {
		cfgs = []retryCfg{{false, 4, 0}, {true, 4, 0}, {false, 1, 0}, {true, 1, 0}, {false, 2, 0}, {true, 2, 0}, {false, 8, 0}, {true, 8, 0}}
	}
	// every other failure value: the two 4-byte-buffer configurations (all of them in thorough)
	base := append([]retryCfg(nil), cfgs...)
	for k := 1; k < len(errKinds); k++ {
		for _, c := range base {
			if r.Thorough() || c.bufSize == 4 {
				cfgs = append(cfgs, retryCfg{c.eofWithData, c.bufSize, k})
			}
		}
	}
	for _, c := range cfgs {
		st.configs = append(st.configs, fmt.Sprintf("(%v,%d,%s)", c.eofWithData, c.bufSize, errKinds[c.errKind].name))
	}
	ex := &retryExplorer{r: r, st: st, B: B, cands: map[string]*retryCand{}, extraTailMaxLen: B + 1}
	if r.Thorough() {
		ex.extraTailMaxLen = B + 2
	}
	st.extraTailMaxLen = ex.extraTailMaxLen
	// jobs: (config, first two actions); shorter scripts are run first, sequentially
	type job struct {
		cfg    retryCfg
		script []action
	}
	var jobs []job
	for _, c := range cfgs {
		ex.explore(nil, c, 0)
		for a := action(0); a < nActions; a++ {
			if !usable(a, c.bufSize) {
				continue
			}
			ex.explore([]action{a}, c, 1)
			for b := action(0); b < nActions; b++ {
				if b == aO && !isFailure(a) || !usable(b, c.bufSize) {
					continue
				}
				jobs = append(jobs, job{c, []action{a, b}})
			}
		}
	}
	ev.Parallel(len(jobs), workers, func(i int) {
		ml := st.maxLen
		if jobs[i].cfg.errKind != 0 && !r.Thorough() {
			ml-- // quick: the other failure values one step shorter
		}
		ex.explore(jobs[i].script, jobs[i].cfg, ml)
	})
	ex.finish()
	r.Sample(map[string]interface{}{"retryReader_script": "D2 P1 O F D3", "meaning": "Read delivers 2 bytes; next Read returns (1 byte, error); the reopen fails; after the next reopen the Read fails; then 3 bytes; after the script one of the tails: " + strings.Join(tailName[:], " | ") + "",
		"budget_B": B, "oracle": "EOF => delivered == \"abcdef\"; error => delivered is a prefix of the stream and the reader met at least B failures"})
	return st
}
