package main

import (
	"bytes"
	"context"
	"fmt"
	"io"
	"sort"
	"strings"
	"sync"
	"sync/atomic"

	"github.com/grailbio/bigslice/exec"
	"verifh/ev"
	"verifh/vfs"
)

// ---- alphabet -----------------------------------------------------------------

type key struct {
	task exec.TaskName
	part int
}

// Two key configurations: two partitions of one task (memoryStore keeps a list per
// task; the second key is stored in front of the first), and two different tasks,
// one of them a combiner task (other branch of fileStore.path).
var keyConfigs = [][2]key{
	{{exec.TaskName{InvIndex: 1, Op: "opA", Shard: 0, NumShard: 2}, 1}, {exec.TaskName{InvIndex: 1, Op: "opA", Shard: 0, NumShard: 2}, 0}},
	{{exec.TaskName{InvIndex: 1, Op: "opA", Shard: 1, NumShard: 2}, 0}, {exec.TaskName{InvIndex: 2, Op: "opB", Shard: 0, NumShard: 0}, 2}},
}

type opKind uint8

const (
	opCreate opKind = iota
	opWrite1
	opWrite2
	opWrite3 // only inside the macro operation WC(k,3)
	opCommit
	opDiscardW
	opOpen
	opStat
	opDiscardE
)

var kindName = [...]string{"Create", "Write1", "Write2", "Write3", "Commit", "DiscardWriter", "Open", "Stat", "DiscardEntry"}

type op struct {
	kind opKind
	k    int   // key index (Create, Open, Stat, DiscardEntry)
	w    int   // writer index = ordinal of its Create in the history (writer ops)
	off  int64 // Open
}

func (o op) String() string {
	switch o.kind {
	case opCreate, opStat, opDiscardE:
		return fmt.Sprintf("%s(k%d)", kindName[o.kind], o.k)
	case opOpen:
		return fmt.Sprintf("Open(k%d,off=%d)", o.k, o.off)
	}
	return fmt.Sprintf("%s(w%d)", kindName[o.kind], o.w)
}

func histString(h []op) string {
	s := make([]string, len(h))
	for i, o := range h {
		s[i] = o.String()
	}
	return strings.Join(s, " ")
}

// ---- model --------------------------------------------------------------------

type entState uint8

const (
	absent  entState = iota // nothing committed (or discarded): must not be readable
	present                 // committed: data/n must be returned
	maybe                   // a Discard reported an error: either still exactly data/n, or gone
	wild                    // committed by a writer one of whose Writes failed: content unspecified
)

var entName = [...]string{"absent", "present", "maybe", "wild"}

type entry struct {
	st   entState
	data []byte
	n    int64
	// suspect is set when the Commit that made the entry returned nil although one of
	// its own file operations failed; it names the cause in the signature.
	suspect string
	// gen counts the successful commits on this key so far.
	gen int
}

type writerIface interface {
	io.Writer
	Commit(ctx context.Context, records int64) error
	Discard(ctx context.Context)
}

type mwriter struct {
	exists  bool
	open    bool
	tainted bool
	k       int
	buf     []byte
	real    writerIface
}

type model struct {
	ent     [2]entry
	writers []*mwriter
}

func (m *model) stateString() string {
	var b strings.Builder
	for i := range m.ent {
		fmt.Fprintf(&b, "k%d:%s/%d ", i, entName[m.ent[i].st], len(m.ent[i].data))
	}
	for _, w := range m.writers {
		switch {
		case !w.exists:
			b.WriteString("w- ")
		case w.open:
			fmt.Fprintf(&b, "w(k%d,%d,t=%v) ", w.k, len(w.buf), w.tainted)
		default:
			b.WriteString("wdone ")
		}
	}
	return b.String()
}

func offsets(e entry) []int64 {
	if e.st != present {
		return []int64{0, 1}
	}
	l := int64(len(e.data))
	var out []int64
	for _, o := range []int64{0, 1, l - 1, l, l + 1} {
		dup := o < 0
		for _, x := range out {
			dup = dup || x == o
		}
		if !dup {
			out = append(out, o)
		}
	}
	return out
}

// enabled lists the operations offered after a history whose model state is m.
func enabled(m *model) []op {
	var ops []op
	for k := 0; k < 2; k++ {
		ops = append(ops, op{kind: opCreate, k: k})
	}
	for i, w := range m.writers {
		if w.exists && w.open {
			for _, kd := range []opKind{opWrite1, opWrite2, opCommit, opDiscardW} {
				ops = append(ops, op{kind: kd, w: i})
			}
		}
	}
	for k := 0; k < 2; k++ {
		for _, off := range offsets(m.ent[k]) {
			ops = append(ops, op{kind: opOpen, k: k, off: off})
		}
		ops = append(ops, op{kind: opStat, k: k}, op{kind: opDiscardE, k: k})
	}
	return ops
}

// ---- running a history on the real store ---------------------------------------

type violation struct {
	class  string // oracle class
	cause  string // class of the failing input
	detail map[string]interface{}
}

type runResult struct {
	m        model
	log      []string // vfs labels of the run (fileStore)
	opOfCall []int    // for each label, index of the history op during which it was logged (-1 audit)
	fired    bool
	viol     *violation
	outcomes []string
	skipped  int
	tainted  int
}

type runner struct {
	kind string // "fileStore" | "memoryStore"
	cfg  int
	keys [2]key
	vol  *vfs.FS // fileStore only
	// re-commit (macro) histories: the macro form of the history being run, and
	// whether the single-fault sweep is skipped for it
	macro   string
	noSweep bool
}

func (rn *runner) histKey() string {
	if rn.macro != "" {
		return rn.kind + "/recommit"
	}
	return rn.kind
}

func (rn *runner) newStore() exec.Store {
	if rn.kind == "memoryStore" {
		return exec.VerifC15MemoryStore()
	}
	return exec.VerifC15FileStore(rn.vol.Prefix() + "store")
}

// fsopsOf extracts the file-operation names of labels ("Write:store/..#0" -> "Write").
func fsopsOf(labels []string) string {
	set := map[string]bool{}
	for _, l := range labels {
		if i := strings.IndexByte(l, ':'); i > 0 {
			set[l[:i]] = true
		}
	}
	var names []string
	for n := range set {
		names = append(names, n)
	}
	sort.Strings(names)
	return strings.Join(names, "+")
}

func errClass(err error) string {
	switch {
	case err == nil:
		return "nil"
	case vfs.IsInjected(err):
		return "err-injected"
	}
	return "err"
}

// chunk returns the bytes written by chunk c of history position i: all bytes of a
// history are distinct and non-zero, whatever fails.
func chunk(i, c int) []byte {
	base := byte(1 + i*6)
	switch c {
	case 0:
		return []byte{base, base + 1, base + 2}
	case 1:
		return []byte{base + 3, base + 4}
	}
	return []byte{base + 5}
}

// bs renders bytes readably in evidence ("[6 7 8]").
func bs(b []byte) string { return fmt.Sprint(b) }

var (
	auditStat = [2]string{"audit Stat(k0)", "audit Stat(k1)"}
	auditOpen = [2]string{"audit Open(k0,off=0)", "audit Open(k1,off=0)"}
)

const readBuf = 4

func readAll(rc io.Reader) ([]byte, error) {
	var out []byte
	buf := make([]byte, readBuf)
	for i := 0; i < 1000; i++ {
		n, err := rc.Read(buf)
		out = append(out, buf[:n]...)
		if err == io.EOF {
			return out, nil
		}
		if err != nil {
			return out, err
		}
	}
	return out, fmt.Errorf("harness: reader made no end after 1000 reads")
}

// run executes history h on a fresh store. If label != "" that vfs call is armed.
func (rn *runner) run(h []op, label string, mode vfs.Mode) *runResult {
	ctx := context.Background()
	res := &runResult{}
	m := &res.m
	isFile := rn.kind == "fileStore"
	if isFile {
		rn.vol.Reset()
		if label != "" {
			rn.vol.FailAt(label, mode)
		}
	}
	store := rn.newStore()
	nfail, nlog := 0, 0
	// failedSince returns the labels of vfs calls that failed since the last call.
	failedSince := func() []string {
		if !isFile || label == "" {
			return nil // nothing is armed: no call can fail
		}
		f := rn.vol.Failures()
		d := f[nfail:]
		nfail = len(f)
		return d
	}
	noteCalls := func(i int) {
		if !isFile || label != "" || rn.noSweep {
			return // only the fault-free run that feeds the sweep needs the call->op map
		}
		l := rn.vol.Log()
		for ; nlog < len(l); nlog++ {
			res.opOfCall = append(res.opOfCall, i)
		}
	}
	violate := func(i int, what string, class, cause string, extra map[string]interface{}) {
		if res.viol != nil {
			return
		}
		if what == "" {
			what = h[i].String()
		}
		d := map[string]interface{}{"store": rn.kind, "key_config": rn.cfg, "history": histString(h), "at_op": what, "op_index": i}
		if label != "" {
			d["fault"] = mode.String() + " at " + label
		}
		if rn.macro != "" {
			d["recommit_history"] = rn.macro
		}
		for k, v := range extra {
			d[k] = v
		}
		res.viol = &violation{class: class, cause: cause, detail: d}
	}

	// checkRead judges Open/Stat results against the entry.
	type readObs struct {
		openErr error
		got     []byte
		readErr error
	}
	judgeOpen := func(i int, what string, e entry, off int64, ob readObs, failed []string) {
		faulty := len(failed) > 0
		cause := func(dflt string) string {
			if e.suspect != "" {
				return e.suspect
			}
			if faulty {
				return "failed-" + fsopsOf(failed) + "-during-Open"
			}
			if e.gen > 1 {
				return dflt + "/key-committed-more-than-once"
			}
			return dflt
		}
		switch e.st {
		case absent:
			if ob.openErr == nil {
				violate(i, what, "data-visible-without-successful-commit", cause("Open-succeeds-on-absent-entry"),
					map[string]interface{}{"got_bytes": bs(ob.got), "read_err": fmt.Sprint(ob.readErr)})
			}
		case wild:
		case present, maybe:
			l := int64(len(e.data))
			want := []byte{}
			if off <= l {
				want = e.data[off:]
			}
			if ob.openErr != nil {
				if e.st == maybe || faulty || off > l {
					return
				}
				violate(i, what, "committed-data-not-returned", cause("Open-error-without-any-failure"),
					map[string]interface{}{"open_err": ob.openErr.Error(), "committed": bs(e.data), "offset": off})
				return
			}
			if ob.readErr != nil {
				if !faulty {
					violate(i, what, "committed-data-not-returned", cause("read-error-without-any-failure"),
						map[string]interface{}{"read_err": ob.readErr.Error(), "committed": bs(e.data), "offset": off})
					return
				}
				if !bytes.HasPrefix(want, ob.got) {
					violate(i, what, "wrong-bytes", cause("bytes-before-read-error"),
						map[string]interface{}{"got": bs(ob.got), "want_prefix_of": bs(want), "committed": bs(e.data), "offset": off})
				}
				return
			}
			if !bytes.Equal(want, ob.got) {
				violate(i, what, "wrong-bytes", cause("Open-without-any-failure"),
					map[string]interface{}{"got": bs(ob.got), "want": bs(want), "committed": bs(e.data), "offset": off})
			}
		}
	}
	judgeStat := func(i int, what string, e entry, size, recs int64, err error, failed []string) {
		faulty := len(failed) > 0
		cause := func(dflt string) string {
			if e.suspect != "" {
				return e.suspect
			}
			if faulty {
				return "failed-" + fsopsOf(failed) + "-during-Stat"
			}
			if e.gen > 1 {
				return dflt + "/key-committed-more-than-once"
			}
			return dflt
		}
		switch e.st {
		case absent:
			if err == nil {
				violate(i, what, "data-visible-without-successful-commit", cause("Stat-succeeds-on-absent-entry"),
					map[string]interface{}{"size": size, "records": recs})
			}
		case wild:
		case present, maybe:
			if err != nil {
				if e.st == maybe || faulty {
					return
				}
				violate(i, what, "committed-data-not-returned", cause("Stat-error-without-any-failure"),
					map[string]interface{}{"stat_err": err.Error(), "committed": bs(e.data), "records": e.n})
				return
			}
			if size != int64(len(e.data)) || recs != e.n {
				violate(i, what, "wrong-size-or-count", cause("Stat-without-any-failure"),
					map[string]interface{}{"got_size": size, "got_records": recs, "want_size": len(e.data), "want_records": e.n})
			}
		}
	}
	doOpen := func(st exec.Store, k int, off int64) readObs {
		var ob readObs
		rc, err := st.Open(ctx, rn.keys[k].task, rn.keys[k].part, off)
		ob.openErr = err
		if err == nil {
			ob.got, ob.readErr = readAll(rc)
			_ = rc.Close()
		}
		return ob
	}
	doStat := func(st exec.Store, k int) (int64, int64, error) {
		info, err := st.Stat(ctx, rn.keys[k].task, rn.keys[k].part)
		return info.Size, info.Records, err
	}
	outcome := func(s string) { res.outcomes = append(res.outcomes, s) }

	for i, o := range h {
		failedSince()
		what := "" // violate() fills in o.String()
		switch o.kind {
		case opCreate:
			w, err := store.Create(ctx, rn.keys[o.k].task, rn.keys[o.k].part)
			mw := &mwriter{k: o.k}
			if err == nil {
				mw.exists, mw.open, mw.real = true, true, w
			}
			m.writers = append(m.writers, mw)
			outcome("Create:" + entName[m.ent[o.k].st] + ":" + errClass(err))
		case opWrite1, opWrite2, opWrite3:
			mw := m.writers[o.w]
			if !mw.exists || !mw.open {
				res.skipped++
				outcome(kindName[o.kind] + ":skipped")
				break
			}
			nch := 1 + int(o.kind-opWrite1)
			oc := "ok"
			for c := 0; c < nch; c++ {
				data := chunk(i, c)
				n, err := mw.real.Write(data)
				if err != nil || n != len(data) {
					mw.tainted = true
					res.tainted++
					oc = fmt.Sprintf("chunk%d:%s:n=%d", c, errClass(err), n)
					break
				}
				mw.buf = append(mw.buf, data...)
			}
			outcome(kindName[o.kind] + ":" + oc)
		case opCommit:
			mw := m.writers[o.w]
			if !mw.exists || !mw.open {
				res.skipped++
				outcome("Commit:skipped")
				break
			}
			n := int64(100 + 10*o.w + len(mw.buf))
			err := mw.real.Commit(ctx, n)
			failed := failedSince()
			mw.open = false
			e := &m.ent[mw.k]
			prev := entName[e.st]
			if err == nil {
				gen := e.gen + 1
				if mw.tainted {
					*e = entry{st: wild, gen: gen}
				} else {
					*e = entry{st: present, data: mw.buf, n: n, gen: gen}
					if len(failed) > 0 {
						e.suspect = "Commit-returned-nil-despite-failed-" + fsopsOf(failed)
					}
				}
			}
			oc := "Commit:on-" + prev + ":" + errClass(err)
			if len(failed) > 0 {
				oc += ":failed-" + fsopsOf(failed)
			}
			outcome(oc)
		case opDiscardW:
			mw := m.writers[o.w]
			if !mw.exists || !mw.open {
				res.skipped++
				outcome("DiscardWriter:skipped")
				break
			}
			mw.real.Discard(ctx)
			mw.open = false
			outcome("DiscardWriter:done")
		case opOpen:
			ob := doOpen(store, o.k, o.off)
			failed := failedSince()
			e := m.ent[o.k]
			judgeOpen(i, what, e, o.off, ob, failed)
			rel := "in"
			if e.st == present && o.off > int64(len(e.data)) {
				rel = "beyond"
			}
			oc := fmt.Sprintf("Open:%s:%s:open=%s", entName[e.st], rel, errClass(ob.openErr))
			if ob.openErr == nil {
				oc += ":read=" + errClass(ob.readErr)
			}
			if len(failed) > 0 {
				oc += ":failed-" + fsopsOf(failed)
			}
			outcome(oc)
		case opStat:
			size, recs, err := doStat(store, o.k)
			failed := failedSince()
			judgeStat(i, what, m.ent[o.k], size, recs, err, failed)
			oc := "Stat:" + entName[m.ent[o.k].st] + ":" + errClass(err)
			if len(failed) > 0 {
				oc += ":failed-" + fsopsOf(failed)
			}
			outcome(oc)
		case opDiscardE:
			err := store.Discard(ctx, rn.keys[o.k].task, rn.keys[o.k].part)
			e := &m.ent[o.k]
			oc := "DiscardEntry:" + entName[e.st] + ":" + errClass(err)
			if err == nil {
				*e = entry{st: absent, gen: e.gen}
			} else if e.st == present {
				e.st = maybe
			}
			outcome(oc)
		}
		noteCalls(i)
	}

	// Final audit through the store interface, with no fault armed; after a crash the
	// file system is restarted and a new store object opened on the same prefix.
	if isFile {
		res.fired = len(rn.vol.Fired()) > 0
		if label == "" && !rn.noSweep {
			res.log = rn.vol.Log()
		}
		rn.vol.ClearFaults()
		if rn.vol.Crashed() {
			rn.vol.Restart()
			store = rn.newStore()
		}
		failedSince()
	}
	for k := 0; k < 2; k++ {
		size, recs, err := doStat(store, k)
		judgeStat(len(h), auditStat[k], m.ent[k], size, recs, err, nil)
		ob := doOpen(store, k, 0)
		judgeOpen(len(h), auditOpen[k], m.ent[k], 0, ob, nil)
	}
	if isFile {
		if f := failedSince(); len(f) > 0 {
			ev.Fatal("c15: vfs call failed during the audit: %v", f)
		}
	}
	return res
}

// ---- exploration ----------------------------------------------------------------

type storeStats struct {
	runs, faultRuns, faultsFired int64
	skipped, taintedNoFault      int64
	violRuns                     int64
	recommit                     []string
	histories                    map[string]int64
	byMode                       map[string]int64
	outcomes, states             *ev.Counter
	faultPoints                  *ev.Counter
}

type explorer struct {
	r     *ev.Run
	depth int
	st    *storeStats
	vols  chan *vfs.FS
	wg    sync.WaitGroup
	stop  atomic.Bool
	mu    sync.Mutex
	cands map[string]*storeCand
	hist  map[string]*int64
	mode  map[string]*int64
}

// storeCand is the simplest violating run seen so far for one signature.
type storeCand struct {
	rank  string
	rn    runner
	h     []op
	label string
	mode  vfs.Mode
	v     *violation
	count int
}

func (ex *explorer) report(rn *runner, h []op, label string, mode vfs.Mode, v *violation) {
	atomic.AddInt64(&ex.st.violRuns, 1)
	class := v.class
	if strings.HasPrefix(v.cause, "Commit-returned-nil") {
		// one root cause, however the missing/stale data are noticed afterwards
		class = "committed-data-not-readable-afterwards"
	}
	sig := "C15/" + rn.kind + "/" + class + "/" + v.cause
	rank := fmt.Sprintf("%03d|%03d|%s|%s|%d|%d", len(h), len(label), histString(h), label, mode, rn.cfg)
	ex.mu.Lock()
	defer ex.mu.Unlock()
	c := ex.cands[sig]
	if c == nil {
		c = &storeCand{rank: "~"}
		ex.cands[sig] = c
	}
	c.count++
	if rank < c.rank {
		c.rank, c.rn, c.h, c.label, c.mode, c.v = rank, *rn, append([]op(nil), h...), label, mode, v
	}
}

// finish reports, per signature, the simplest violating run (shortest history), after
// re-executing it twice (deterministic scenario, DESIGN §7.2).
func (ex *explorer) finish(vol *vfs.FS) {
	var sigs []string
	for s := range ex.cands {
		sigs = append(sigs, s)
	}
	sort.Strings(sigs)
	for _, sig := range sigs {
		c := ex.cands[sig]
		rn := c.rn
		rn.vol = vol
		// labels do not contain the volume name, so they carry over to the root volume
		for i := 0; i < 2; i++ {
			again := rn.run(c.h, c.label, c.mode)
			if again.viol == nil || again.viol.class != c.v.class || again.viol.cause != c.v.cause {
				ev.Fatal("c15: violation %s not reproduced on re-execution of %q fault=%q", sig, histString(c.h), c.label)
			}
			c.v = again.viol // detail from the root volume: identical in every run
		}
		what := fmt.Sprintf("%s: %s (%s); history [%s]", rn.kind, c.v.class, c.v.cause, histString(c.h))
		if c.label != "" {
			what += fmt.Sprintf(" with %s at %s", c.mode, c.label)
		}
		c.v.detail["violating_runs_with_this_signature"] = c.count
		ex.r.Violate(sig, what, c.v.detail)
	}
}

// evaluate runs h fault-free, then (fileStore) with every fault; returns the model.
func (ex *explorer) evaluate(rn *runner, h []op) *model {
	base := rn.run(h, "", 0)
	atomic.AddInt64(&ex.st.runs, 1)
	atomic.AddInt64(ex.hist[rn.histKey()], 1)
	atomic.AddInt64(&ex.st.skipped, int64(base.skipped))
	atomic.AddInt64(&ex.st.taintedNoFault, int64(base.tainted))
	if len(h) > 0 {
		ex.st.outcomes.Add(base.outcomes[len(h)-1])
	}
	ex.st.states.Add(base.m.stateString())
	if base.viol != nil {
		ex.report(rn, h, "", 0, base.viol)
	}
	if rn.kind != "fileStore" || rn.noSweep {
		return &base.m
	}
	for ci, label := range base.log {
		if ci >= len(base.opOfCall) || base.opOfCall[ci] < 0 {
			continue // audit calls are not fault points
		}
		fsop := label[:strings.IndexByte(label, ':')]
		modes := []vfs.Mode{vfs.Fail, vfs.Crash}
		if fsop == "Write" {
			modes = []vfs.Mode{vfs.Fail, vfs.FailPartial, vfs.Crash}
		}
		for _, mode := range modes {
			res := rn.run(h, label, mode)
			atomic.AddInt64(&ex.st.runs, 1)
			atomic.AddInt64(&ex.st.faultRuns, 1)
			atomic.AddInt64(ex.mode[mode.String()], 1)
			atomic.AddInt64(&ex.st.skipped, int64(res.skipped))
			if res.fired {
				atomic.AddInt64(&ex.st.faultsFired, 1)
			}
			// outcomes of the op in which the fault fired and of the last op
			fi := base.opOfCall[ci]
			ex.st.outcomes.Add(res.outcomes[fi])
			ex.st.outcomes.Add(res.outcomes[len(h)-1])
			ex.st.faultPoints.Add(fsop + "-in-" + kindName[h[fi].kind] + ":" + mode.String())
			ex.st.states.Add(res.m.stateString())
			if res.viol != nil {
				ex.report(rn, h, label, mode, res.viol)
			}
		}
	}
	return &base.m
}

func (ex *explorer) explore(rn *runner, h []op) {
	if ex.stop.Load() {
		return
	}
	if ex.r.OverBudget(budget(ex.r)) {
		if !ex.stop.Swap(true) {
			ex.r.NotExhaustive(fmt.Sprintf("store histories: soft time budget hit (at %s [%s])", rn.kind, histString(h)))
		}
		return
	}
	m := ex.evaluate(rn, h)
	if len(h) >= ex.depth {
		return
	}
	for _, o := range enabled(m) {
		child := append(append([]op(nil), h...), o)
		if len(child) == 2 {
			// subtrees below depth 2 run in parallel, each on its own volume
			ex.wg.Add(1)
			go func(rn runner) {
				defer ex.wg.Done()
				rn.vol = <-ex.vols
				defer func() { ex.vols <- rn.vol }()
				ex.explore(&rn, child)
			}(*rn)
			continue
		}
		ex.explore(rn, child)
	}
}

func newStoreStats() *storeStats {
	return &storeStats{histories: map[string]int64{}, byMode: map[string]int64{},
		outcomes: ev.NewCounter(), states: ev.NewCounter(), faultPoints: ev.NewCounter()}
}

func runStores(r *ev.Run, depth, workers int) *storeStats {
	st := newStoreStats()
	ex := &explorer{r: r, depth: depth, st: st, vols: make(chan *vfs.FS, workers), cands: map[string]*storeCand{},
		hist: map[string]*int64{"fileStore": new(int64), "memoryStore": new(int64), "fileStore/recommit": new(int64), "memoryStore/recommit": new(int64)},
		mode: map[string]*int64{"fail": new(int64), "failpartial": new(int64), "crash": new(int64)}}
	for i := 0; i < workers; i++ {
		ex.vols <- vfs.New(fmt.Sprintf("c15w%d", i))
	}
	root := vfs.New("c15root")
	for _, kind := range []string{"memoryStore", "fileStore"} {
		for ci, cfg := range keyConfigs {
			rn := &runner{kind: kind, cfg: ci, keys: cfg, vol: root}
			ex.explore(rn, nil)
			ex.wg.Wait()
		}
	}
	ex.runRecommit(workers)
	ex.finish(root)
	for k, p := range ex.hist {
		st.histories[k] = *p
	}
	for k, p := range ex.mode {
		st.byMode[k] = *p
	}
	// written-out examples
	rn := &runner{kind: "fileStore", cfg: 0, keys: keyConfigs[0], vol: root}
	ex1 := []op{{kind: opCreate, k: 0}, {kind: opWrite2, w: 0}, {kind: opCommit, w: 0}, {kind: opOpen, k: 0, off: 4}}
	b := rn.run(ex1, "", 0)
	r.Sample(map[string]interface{}{"store": "fileStore", "history": histString(ex1), "vfs_log_of_fault_free_run": b.log,
		"meaning": "each label before the audit is failed in turn (fail, failpartial for Write, crash); outcomes judged against the map model", "op_outcomes": b.outcomes})
	return st
}

// ---- re-commit histories: macro operations ----------------------------------------
//
// WC(k,c) = Create(k); Write of c chunks (3, 5 or 6 bytes); Commit. Histories over
// {WC(k,1), WC(k,2), WC(k,3), Open(k,0), Open(k,1), Stat(k), DiscardEntry(k)} reach every
// order of commit / open / discard / commit-again-with-another-size within the depth,
// which the primitive alphabet only reaches at 3 ops per commit.

type macro struct {
	kind opKind // opCommit stands for WC
	k    int
	n    int // chunks (WC) or offset (Open)
}

func (m macro) String() string {
	switch m.kind {
	case opCommit:
		return fmt.Sprintf("WC(k%d,%d)", m.k, m.n)
	case opOpen:
		return fmt.Sprintf("Open(k%d,off=%d)", m.k, m.n)
	}
	return fmt.Sprintf("%s(k%d)", kindName[m.kind], m.k)
}

func macroAlphabet(nkeys int) []macro {
	var a []macro
	for k := 0; k < nkeys; k++ {
		a = append(a, macro{opCommit, k, 1}, macro{opCommit, k, 2}, macro{opCommit, k, 3},
			macro{opOpen, k, 0}, macro{opOpen, k, 1}, macro{opStat, k, 0}, macro{opDiscardE, k, 0})
	}
	return a
}

func expandMacros(ms []macro) ([]op, string) {
	var h []op
	names := make([]string, len(ms))
	nw := 0
	for i, m := range ms {
		names[i] = m.String()
		switch m.kind {
		case opCommit:
			h = append(h, op{kind: opCreate, k: m.k}, op{kind: opWrite1 + opKind(m.n-1), w: nw}, op{kind: opCommit, w: nw})
			nw++
		case opOpen:
			h = append(h, op{kind: opOpen, k: m.k, off: int64(m.n)})
		default:
			h = append(h, op{kind: m.kind, k: m.k})
		}
	}
	return h, strings.Join(names, " ")
}

type recommitPlan struct {
	kind    string
	cfg     int
	nkeys   int
	depth   int
	noSweep bool
}

func (ex *explorer) runRecommit(workers int) {
	// depths: one key fault-free / one key with the sweep / two keys fault-free / two keys with the sweep
	d1, d1sweep, d2, d2sweep := 5, 4, 4, 3
	if ex.r.Thorough() {
		d1, d1sweep, d2, d2sweep = 6, 5, 5, 4
	}
	plans := []recommitPlan{
		{"memoryStore", 0, 1, d1, true},
		{"fileStore", 0, 1, d1sweep, false},
		{"fileStore", 0, 1, d1, true},
		{"memoryStore", 0, 2, d2, true},
		{"fileStore", 0, 2, d2sweep, false},
		{"fileStore", 0, 2, d2, true},
	}
	if ex.r.Thorough() {
		plans = append(plans, recommitPlan{"memoryStore", 1, 2, d2 - 1, true}, recommitPlan{"fileStore", 1, 2, d2 - 1, true})
	}
	swept := map[string]int{} // "<nkeys>" -> depth already run with the sweep (fileStore, cfg 0)
	for _, pl := range plans {
		alpha := macroAlphabet(pl.nkeys)
		for d := 1; d <= pl.depth; d++ {
			key := fmt.Sprint(pl.nkeys)
			if pl.kind == "fileStore" && pl.cfg == 0 {
				if pl.noSweep && d <= swept[key] {
					continue // already run (fault-free run included) with the sweep
				}
				if !pl.noSweep {
					swept[key] = d
				}
			}
			total := 1
			for i := 0; i < d; i++ {
				total *= len(alpha)
			}
			ev.Parallel(total, workers, func(i int) {
				if ex.stop.Load() {
					return
				}
				if i%256 == 0 && ex.r.OverBudget(budget(ex.r)) {
					if !ex.stop.Swap(true) {
						ex.r.NotExhaustive(fmt.Sprintf("re-commit histories: soft time budget hit (%s, %d keys, depth %d)", pl.kind, pl.nkeys, d))
					}
					return
				}
				ms := make([]macro, d)
				for j, x := d-1, i; j >= 0; j-- {
					ms[j] = alpha[x%len(alpha)]
					x /= len(alpha)
				}
				h, name := expandMacros(ms)
				vol := <-ex.vols
				defer func() { ex.vols <- vol }()
				rn := &runner{kind: pl.kind, cfg: pl.cfg, keys: keyConfigs[pl.cfg], vol: vol, macro: name, noSweep: pl.noSweep}
				ex.evaluate(rn, h)
			})
			ex.st.recommit = append(ex.st.recommit, fmt.Sprintf("%s keys=%d cfg=%d depth=%d sweep=%v: %d histories", pl.kind, pl.nkeys, pl.cfg, d, !pl.noSweep && pl.kind == "fileStore", total))
		}
	}
}
