package main

import (
	"context"
	"fmt"
	"io"
	"reflect"
	"sort"

	"github.com/grailbio/base/errors"
	"github.com/grailbio/base/file"
	"verifh/ev"
	"verifh/vfs"
)

// vfsSelfCheck validates the trusted base of this check: the semantics of verifh/vfs
// as documented in its package comment. Any deviation is a machinery failure.
func vfsSelfCheck() {
	ctx := context.Background()
	fs := vfs.New("c15self")
	fs.Reset()
	must := func(ok bool, format string, a ...interface{}) {
		if !ok {
			ev.Fatal("vfs self-check: "+format, a...)
		}
	}
	p := fs.Prefix() + "d/x"
	readFile := func(path string) ([]byte, error) {
		f, err := file.Open(ctx, path)
		if err != nil {
			return nil, err
		}
		defer f.Close(ctx)
		return io.ReadAll(f.Reader(ctx))
	}
	// nothing there
	_, err := file.Open(ctx, p)
	must(errors.Is(errors.NotExist, err), "Open of absent file: %v", err)
	_, err = file.Stat(ctx, p)
	must(errors.Is(errors.NotExist, err), "Stat of absent file: %v", err)
	must(errors.Is(errors.NotExist, file.Remove(ctx, p)), "Remove of absent file")
	// visible at Close only
	w, err := file.Create(ctx, p)
	must(err == nil, "Create: %v", err)
	n, err := w.Writer(ctx).Write([]byte("hello"))
	must(n == 5 && err == nil, "Write")
	_, err = file.Open(ctx, p)
	must(errors.Is(errors.NotExist, err), "pending data visible before Close")
	must(w.Close(ctx) == nil, "Close")
	b, err := readFile(p)
	must(err == nil && string(b) == "hello", "content after Close: %q %v", b, err)
	// old content stays until the new one is closed; Discard publishes nothing
	w, _ = file.Create(ctx, p)
	w.Writer(ctx).Write([]byte("new"))
	b, _ = readFile(p)
	must(string(b) == "hello", "old content replaced before Close: %q", b)
	w.Discard(ctx)
	b, _ = readFile(p)
	must(string(b) == "hello", "Discard changed the content: %q", b)
	_, err = w.Writer(ctx).Write([]byte("z"))
	must(err != nil, "Write after Discard succeeded")
	// seek / shared pointer / snapshot
	f, _ := file.Open(ctx, p)
	r := f.Reader(ctx)
	pos, err := r.Seek(-2, io.SeekEnd)
	must(pos == 3 && err == nil, "Seek end: %d %v", pos, err)
	must(file.Remove(ctx, p) == nil, "Remove")
	rest, err := io.ReadAll(f.Reader(ctx))
	must(string(rest) == "lo" && err == nil, "read through second Reader of an open file after Remove: %q %v", rest, err)
	_, err = r.Seek(-1, io.SeekStart)
	must(err != nil, "negative seek accepted")
	f.Close(ctx)
	want := []string{"Open:d/x#0", "Stat:d/x#0", "Remove:d/x#0", "Create:d/x#0", "Write:d/x#0", "Open:d/x#1", "Close:d/x#0",
		"Open:d/x#2", "Read:d/x#0", "Read:d/x#1", "CloseR:d/x#0"}
	got := fs.Log()
	must(len(got) > len(want) && reflect.DeepEqual(got[:len(want)], want), "labels: %v", got)

	// fail / failpartial
	fs.Reset()
	fs.FailAt("Write:d/x#1", vfs.FailPartial)
	fs.FailAt("Close:d/y#0", vfs.Fail)
	w, _ = file.Create(ctx, p)
	w.Writer(ctx).Write([]byte("ab"))
	n, err = w.Writer(ctx).Write([]byte("cdef"))
	must(n == 2 && vfs.IsInjected(err), "partial write: %d %v", n, err)
	must(vfs.IsInjected(errors.E("wrapped", err)), "IsInjected through errors.E")
	must(w.Close(ctx) == nil, "Close after partial write")
	must(string(fs.Files()["d/x"]) == "abcd", "content after partial write: %q", fs.Files()["d/x"])
	w, _ = file.Create(ctx, fs.Prefix()+"d/y")
	w.Writer(ctx).Write([]byte("q"))
	must(vfs.IsInjected(w.Close(ctx)), "armed Close did not fail")
	_, ok := fs.Files()["d/y"]
	must(!ok, "failed Close published the file")
	must(reflect.DeepEqual(fs.Fired(), []string{"Write:d/x#1", "Close:d/y#0"}), "Fired: %v", fs.Fired())

	// crash: pending files vanish, later calls fail, Restart keeps committed files
	fs.Reset()
	fs.Put("d/keep", []byte("k"))
	fs.FailAt("Write:d/b#0", vfs.Crash)
	wa, _ := file.Create(ctx, fs.Prefix()+"d/a")
	wa.Writer(ctx).Write([]byte("a"))
	wb, _ := file.Create(ctx, fs.Prefix()+"d/b")
	_, err = wb.Writer(ctx).Write([]byte("b"))
	must(vfs.IsInjected(err) && fs.Crashed(), "crash did not happen")
	must(wa.Close(ctx) != nil, "Close after crash succeeded")
	_, err = file.Open(ctx, fs.Prefix()+"d/keep")
	must(vfs.IsInjected(err), "Open after crash succeeded")
	fs.Restart()
	must(wa.Close(ctx) != nil, "Close of a file lost in the crash succeeded after Restart")
	var names []string
	for k := range fs.Files() {
		names = append(names, k)
	}
	must(reflect.DeepEqual(names, []string{"d/keep"}), "files after crash+restart: %v", names)

	// List
	fs.Reset()
	for _, k := range []string{"l/a", "l/s/b", "l/s/c", "lx"} {
		fs.Put(fs.Prefix()+k, []byte(k))
	}
	list := func(rec bool) []string {
		var out []string
		l := file.List(ctx, fs.Prefix()+"l", rec)
		for l.Scan() {
			out = append(out, fmt.Sprintf("%s dir=%v", l.Path()[len(fs.Prefix()):], l.IsDir()))
		}
		must(l.Err() == nil, "List: %v", l.Err())
		sort.Strings(out)
		return out
	}
	must(reflect.DeepEqual(list(false), []string{"l/a dir=false", "l/s dir=true"}), "List non-recursive: %v", list(false))
	must(reflect.DeepEqual(list(true), []string{"l/a dir=false", "l/s/b dir=false", "l/s/c dir=false"}), "List recursive: %v", list(true))
	fs.Reset()
}
