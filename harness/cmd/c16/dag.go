// Part (d): invocations whose Result arguments form a DAG (diamond and deeper), run
// end-to-end on a verifsystem cluster in which the consuming invocation is placed on
// machines that have compiled NONE of its dependencies: the producers have one shard
// (one machine of 2 procs suffices), the join has 6 shards, so the machine manager
// starts further machines for it and the executor has to ship the whole invocation
// graph to each of them, dependencies first.
//
// Oracle (statement: "arrive at a worker such that invoking there builds the same slice
// as on the driver"): Run succeeds and the rows are the ones the operators prescribe
// (computed here in plain Go).
package main

import (
	"context"
	"encoding/json"
	"fmt"
	"os"
	osexec "os/exec"
	"sort"
	"strings"
	"sync"
	"time"

	"github.com/grailbio/bigslice/exec"
	"verifh/vsys"
)

type dagStep struct {
	fn   int   // registry index: 15 base, 16 derive, 17 join2, 18 join3
	args []int // indices of earlier steps whose results are passed
	add  int   // derive: added to every value
}

type dagScenario struct {
	name  string
	steps []dagStep
}

const joinShards = 6

var dagScenarios = []dagScenario{
	{"diamond", []dagStep{{15, nil, 0}, {16, []int{0}, 10}, {17, []int{0, 1}, 0}}},
	{"diamond-swapped", []dagStep{{15, nil, 0}, {16, []int{0}, 10}, {17, []int{1, 0}, 0}}},
	{"deep", []dagStep{{15, nil, 0}, {16, []int{0}, 10}, {16, []int{1}, 100}, {18, []int{0, 1, 2}, 0}}},
	{"deep-reversed", []dagStep{{15, nil, 0}, {16, []int{0}, 10}, {16, []int{1}, 100}, {18, []int{2, 1, 0}, 0}}},
	{"same-result-twice", []dagStep{{15, nil, 0}, {17, []int{0, 0}, 0}}},
	{"two-derived-of-one-base", []dagStep{{15, nil, 0}, {16, []int{0}, 10}, {16, []int{0}, 20}, {18, []int{1, 2, 0}, 0}}},
	{"chain-only", []dagStep{{15, nil, 0}, {16, []int{0}, 10}, {16, []int{1}, 100}, {17, []int{2, 2}, 0}}},
}

// expectedRows computes the rows of the last step in plain Go.
func (sc dagScenario) expectedRows() []string {
	vals := make([]map[int]int, len(sc.steps))
	for i, st := range sc.steps {
		m := map[int]int{}
		switch st.fn {
		case 15:
			for k := 0; k < 6; k++ {
				m[k] = k
			}
		case 16:
			for k, v := range vals[st.args[0]] {
				m[k] = v + st.add
			}
		default:
			for _, a := range st.args {
				for k, v := range vals[a] {
					m[k] += v
				}
			}
		}
		vals[i] = m
	}
	var rows []string
	for k, v := range vals[len(vals)-1] {
		rows = append(rows, fmt.Sprintf("%d:%d", k, v))
	}
	sort.Strings(rows)
	return rows
}

type dagResult struct {
	SetupErr      string
	Hang          bool
	Failed        bool
	ErrText       string
	Rows          []string
	Machines      int
	FreshCompiles int // machines that compiled the join without having compiled anything before
	JoinCompiles  int // machines that compiled the join
	Crash         string
}

// compileLog records, through the interposer, which host compiled which invocation.
type compileLog struct {
	mu    sync.Mutex
	hosts map[string]map[uint64]bool
}

func (c *compileLog) hook(call *vsys.Call) error {
	if call.Method != "Worker.Compile" {
		return nil
	}
	d, err := exec.VerifC16Decode(call.Body)
	if err != nil {
		return nil
	}
	c.mu.Lock()
	if c.hosts[call.Host] == nil {
		c.hosts[call.Host] = map[uint64]bool{}
	}
	c.hosts[call.Host][d.Index] = true
	c.mu.Unlock()
	return nil
}

func dagChildMain(spec string) {
	vsys.Quiet()
	vsys.FastRetries()
	// verifsystem's keepalive deadline (60 ms) kills machines on an overloaded host; a
	// task that loses its machine 5 times in a row would otherwise fail the Run with
	// "too many tries" -- an artefact of the test bed, not of the invocation.
	exec.VerifSetMaxConsecutiveLost(false)
	var sc *dagScenario
	for i := range dagScenarios {
		if dagScenarios[i].name == spec {
			sc = &dagScenarios[i]
		}
	}
	if sc == nil {
		fmt.Fprintln(os.Stderr, "unknown scenario", spec)
		os.Exit(3)
	}
	res := runDag(*sc)
	b, _ := json.Marshal(res)
	fmt.Printf("C16D-RESULT %s\n", b)
	os.Exit(0)
}

func runDag(sc dagScenario) (res dagResult) {
	sys := vsys.New(2)
	sys.MaxMachines = 12
	cl := &compileLog{hosts: map[string]map[uint64]bool{}}
	sys.Hook = cl.hook
	sess := exec.Start(exec.Bigmachine(sys), exec.Parallelism(2*joinShards))
	// (no Shutdown: see runUnencodable)
	var results []*exec.Result
	last := len(sc.steps) - 1
	for i, st := range sc.steps {
		var args []interface{}
		switch st.fn {
		case 15:
			args = []interface{}{1}
		case 16:
			args = []interface{}{results[st.args[0]], st.add}
		default:
			for _, a := range st.args {
				args = append(args, results[a])
			}
			args = append(args, joinShards)
		}
		var before map[string]bool
		if i == last {
			before = map[string]bool{}
			cl.mu.Lock()
			for h := range cl.hosts {
				before[h] = true
			}
			cl.mu.Unlock()
		}
		// a normal distributed run takes ~0.2 s
		r, err, hang := runWatch(sess, 60*time.Second, registry[st.fn], args...)
		if i != last {
			if err != nil || hang {
				res.SetupErr = fmt.Sprintf("producer step %d: err=%v hang=%v", i, err, hang)
				return
			}
			results = append(results, r)
			continue
		}
		res.Machines = len(sys.Hosts())
		// invocation indices are process-global and sequential: step i is invocation i+1
		cl.mu.Lock()
		for h, invs := range cl.hosts {
			if invs[uint64(last+1)] {
				res.JoinCompiles++
				if !before[h] {
					res.FreshCompiles++
				}
			}
		}
		cl.mu.Unlock()
		if hang {
			res.Hang = true
			return
		}
		if err != nil {
			res.Failed = true
			res.ErrText = firstLine(err.Error())
			return
		}
		done := make(chan struct{})
		go func() {
			defer close(done)
			sc := r.Scanner()
			defer sc.Close()
			var k, v int
			for sc.Scan(context.Background(), &k, &v) {
				res.Rows = append(res.Rows, fmt.Sprintf("%d:%d", k, v))
			}
			if err := sc.Err(); err != nil {
				res.Failed = true
				res.ErrText = "scan: " + firstLine(err.Error())
			}
		}()
		select {
		case <-done:
		case <-time.After(60 * time.Second):
			res = dagResult{Hang: true, Machines: res.Machines, FreshCompiles: res.FreshCompiles, JoinCompiles: res.JoinCompiles}
			return
		}
		sort.Strings(res.Rows)
	}
	return
}

func runDagChild(name string) (res dagResult) {
	exe, err := os.Executable()
	if err != nil {
		res.SetupErr = err.Error()
		return
	}
	cmd := osexec.Command(exe, "-c16d", name)
	var stdout, stderr strings.Builder
	cmd.Stdout, cmd.Stderr = &stdout, &stderr
	if err := cmd.Start(); err != nil {
		res.SetupErr = err.Error()
		return
	}
	timer := time.AfterFunc(6*time.Minute, func() { cmd.Process.Kill() })
	werr := cmd.Wait()
	timer.Stop()
	out := stdout.String()
	if i := strings.Index(out, "C16D-RESULT "); i >= 0 {
		if json.Unmarshal([]byte(strings.TrimSpace(out[i+len("C16D-RESULT "):])), &res) == nil {
			return
		}
	}
	msg := stderr.String()
	for _, l := range strings.Split(msg, "\n") {
		if strings.HasPrefix(l, "panic:") || strings.HasPrefix(l, "fatal error:") {
			res.Crash = firstLine(l)
			return
		}
	}
	res.SetupErr = fmt.Sprintf("child exited (%v) without result: %s", werr, firstLine(msg))
	return
}
