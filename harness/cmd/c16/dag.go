// Part (d): invocations whose Result arguments form a DAG (diamond and deeper), run
// end-to-end on a verifsystem cluster in which the consuming invocation is placed on
// machines that have compiled NONE of its dependencies: the producers have one shard
// (one machine of 2 procs suffices), the join has 6 shards, so the machine manager
// starts further machines for it and the executor has to ship the whole invocation
// graph to each of them, dependencies first.
//
// Dimensions: 10 result-DAG shapes on up to 5 invocations (single, chain, fan-in,
// diamond, diamond+chain, ...) x clusters that grow to 1, 2, 3 and 6 machines of 2 procs
// (the last step has 2*machines shards) x rounds (the executor walks the dependency
// map in Go's random map order: every fresh machine that compiles the last invocation
// is one independent draw of that order).
//
// Part (e) runs the same cells with ONE transient network error injected into the k-th
// Worker.Compile RPC (verifsystem fault "neterr": the call fails, the machine stays
// alive): the RPC layer retries it, and the invocation must still arrive.
//
// Oracle (statement: "arrive at a worker such that invoking there builds the same slice
// as on the driver"): Run succeeds and the rows are the ones the operators prescribe
// (computed here in plain Go).
package main

import (
	"context"
	"encoding/json"
	"fmt"
	"os"
	osexec "os/exec"
	"sort"
	"strings"
	"sync"
	"time"

	"github.com/grailbio/bigslice/exec"
	"verifh/vsys"
)

type dagStep struct {
	fn   int   // registry index: 15 base, 16 derive, 17 join2, 18 join3
	args []int // indices of earlier steps whose results are passed
	add  int   // derive: added to every value
}

type dagScenario struct {
	name  string
	steps []dagStep
}

var dagScenarios = []dagScenario{
	{"single", []dagStep{{15, nil, 0}}},
	{"chain", []dagStep{{15, nil, 0}, {16, []int{0}, 10}, {16, []int{1}, 100}, {17, []int{2, 2}, 0}}},
	{"fan-in", []dagStep{{15, nil, 0}, {15, nil, 0}, {17, []int{0, 1}, 0}}},
	{"diamond", []dagStep{{15, nil, 0}, {16, []int{0}, 10}, {17, []int{0, 1}, 0}}},
	{"diamond-swapped", []dagStep{{15, nil, 0}, {16, []int{0}, 10}, {17, []int{1, 0}, 0}}},
	{"deep", []dagStep{{15, nil, 0}, {16, []int{0}, 10}, {16, []int{1}, 100}, {18, []int{0, 1, 2}, 0}}},
	{"deep-reversed", []dagStep{{15, nil, 0}, {16, []int{0}, 10}, {16, []int{1}, 100}, {18, []int{2, 1, 0}, 0}}},
	{"same-result-twice", []dagStep{{15, nil, 0}, {17, []int{0, 0}, 0}}},
	{"two-derived-of-one-base", []dagStep{{15, nil, 0}, {16, []int{0}, 10}, {16, []int{0}, 20}, {18, []int{1, 2, 0}, 0}}},
	{"diamond+chain", []dagStep{{15, nil, 0}, {16, []int{0}, 10}, {17, []int{0, 1}, 0}, {16, []int{2}, 1000}, {17, []int{3, 0}, 0}}},
}

// diamondLike reports whether the last invocation depends on an invocation both
// directly and through another dependency (the shapes in which a wrong shipping order
// is possible).
func (sc dagScenario) diamondLike() bool {
	switch sc.name {
	case "single", "chain", "fan-in", "same-result-twice":
		return false
	}
	return true
}

// expectedRows computes the rows of the last step in plain Go.
func (sc dagScenario) expectedRows() []string {
	vals := make([]map[int]int, len(sc.steps))
	for i, st := range sc.steps {
		m := map[int]int{}
		switch st.fn {
		case 15:
			for k := 0; k < 6; k++ {
				m[k] = k
			}
		case 16:
			for k, v := range vals[st.args[0]] {
				m[k] = v + st.add
			}
		default:
			for _, a := range st.args {
				for k, v := range vals[a] {
					m[k] += v
				}
			}
		}
		vals[i] = m
	}
	var rows []string
	for k, v := range vals[len(vals)-1] {
		rows = append(rows, fmt.Sprintf("%d:%d", k, v))
	}
	sort.Strings(rows)
	return rows
}

type dagResult struct {
	SetupErr      string
	Hang          bool
	Failed        bool
	ErrText       string
	Rows          []string
	Machines      int
	FreshCompiles int // machines that compiled the join without having compiled anything before
	JoinCompiles  int // machines that compiled the join
	Crash         string
	FaultFired    bool
	CompileRPCs   int
}

// calmSys is verifsystem with generous keepalive deadlines (the driver side is the only
// user of KeepaliveConfig): verifsystem's own 60 ms deadline kills machines when the
// host is overloaded, which has nothing to do with the invocations under test.
type calmSys struct{ *vsys.System }

func (calmSys) KeepaliveConfig() (period, timeout, rpcTimeout time.Duration) {
	return 2 * time.Second, 60 * time.Second, 20 * time.Second
}

// compileLog records, through the interposer, which host compiled which invocation.
type compileLog struct {
	mu    sync.Mutex
	hosts map[string]map[uint64]bool
}

func (c *compileLog) hook(call *vsys.Call) error {
	if call.Method != "Worker.Compile" {
		return nil
	}
	d, err := exec.VerifC16Decode(call.Body)
	if err != nil {
		return nil
	}
	c.mu.Lock()
	if c.hosts[call.Host] == nil {
		c.hosts[call.Host] = map[uint64]bool{}
	}
	c.hosts[call.Host][d.Index] = true
	c.mu.Unlock()
	return nil
}

func dagChildMain(spec string) {
	vsys.Quiet()
	vsys.FastRetries()
	// verifsystem's keepalive deadline (60 ms) kills machines on an overloaded host; a
	// task that loses its machine 5 times in a row would otherwise fail the Run with
	// "too many tries" -- an artefact of the test bed, not of the invocation.
	exec.VerifSetMaxConsecutiveLost(false)
	parts := strings.Split(spec, ";")
	var sc *dagScenario
	for i := range dagScenarios {
		if dagScenarios[i].name == parts[0] {
			sc = &dagScenarios[i]
		}
	}
	if sc == nil || len(parts) != 3 {
		fmt.Fprintln(os.Stderr, "bad scenario spec", spec)
		os.Exit(3)
	}
	var machines, faultK int
	fmt.Sscanf(parts[1], "%d", &machines)
	fmt.Sscanf(parts[2], "%d", &faultK)
	res := runDag(*sc, machines, faultK)
	b, _ := json.Marshal(res)
	fmt.Printf("C16D-RESULT %s\n", b)
	os.Exit(0)
}

// runDag runs the scenario on a cluster that can grow to `machines` machines of 2 procs;
// the last step has 2*machines shards. faultK > 0 injects one transient network error
// into the faultK-th Worker.Compile RPC. A run takes ~0.3 s; watchdogs are 120 s.
func runDag(sc dagScenario, machines, faultK int) (res dagResult) {
	var faults []vsys.Fault
	if faultK > 0 {
		faults = append(faults, vsys.Fault{Label: fmt.Sprintf("Worker.Compile#%d", faultK), Variant: "neterr"})
	}
	sys := vsys.New(2, faults...)
	cl := &compileLog{hosts: map[string]map[uint64]bool{}}
	sys.Hook = cl.hook
	joinShards := 2 * machines
	sess := exec.Start(exec.Bigmachine(calmSys{sys}), exec.Parallelism(2*machines))
	// (no Shutdown: see runUnencodable)
	defer func() {
		res.CompileRPCs = sys.Count("Worker.Compile")
		if f := sys.Fired(); len(f) > 0 {
			res.FaultFired = f[0]
		}
	}()
	var results []*exec.Result
	last := len(sc.steps) - 1
	for i, st := range sc.steps {
		var args []interface{}
		switch st.fn {
		case 15:
			args = []interface{}{1}
			if i == len(sc.steps)-1 {
				args = []interface{}{joinShards}
			}
		case 16:
			args = []interface{}{results[st.args[0]], st.add}
		default:
			for _, a := range st.args {
				args = append(args, results[a])
			}
			if i == len(sc.steps)-1 {
				args = append(args, joinShards)
			} else {
				args = append(args, 1)
			}
		}
		var before map[string]bool
		if i == last {
			before = map[string]bool{}
			cl.mu.Lock()
			for h := range cl.hosts {
				before[h] = true
			}
			cl.mu.Unlock()
		}
		// a normal distributed run takes ~0.2 s
		r, err, hang := runWatch(sess, 120*time.Second, registry[st.fn], args...)
		if i != last {
			if err != nil || hang {
				res.SetupErr = fmt.Sprintf("producer step %d: err=%v hang=%v", i, err, hang)
				return
			}
			results = append(results, r)
			continue
		}
		res.Machines = len(sys.Hosts())
		// invocation indices are process-global and sequential: step i is invocation i+1
		cl.mu.Lock()
		for h, invs := range cl.hosts {
			if invs[uint64(last+1)] {
				res.JoinCompiles++
				if !before[h] {
					res.FreshCompiles++
				}
			}
		}
		cl.mu.Unlock()
		if hang {
			res.Hang = true
			return
		}
		if err != nil {
			res.Failed = true
			res.ErrText = firstLine(err.Error())
			return
		}
		done := make(chan struct{})
		go func() {
			defer close(done)
			sc := r.Scanner()
			defer sc.Close()
			var k, v int
			for sc.Scan(context.Background(), &k, &v) {
				res.Rows = append(res.Rows, fmt.Sprintf("%d:%d", k, v))
			}
			if err := sc.Err(); err != nil {
				res.Failed = true
				res.ErrText = "scan: " + firstLine(err.Error())
			}
		}()
		select {
		case <-done:
		case <-time.After(120 * time.Second):
			res = dagResult{Hang: true, Machines: res.Machines, FreshCompiles: res.FreshCompiles, JoinCompiles: res.JoinCompiles}
			return
		}
		sort.Strings(res.Rows)
	}
	return
}

func runDagChild(name string, machines, faultK int) (res dagResult) {
	exe, err := os.Executable()
	if err != nil {
		res.SetupErr = err.Error()
		return
	}
	cmd := osexec.Command(exe, "-c16d", fmt.Sprintf("%s;%d;%d", name, machines, faultK))
	var stdout, stderr strings.Builder
	cmd.Stdout, cmd.Stderr = &stdout, &stderr
	if err := cmd.Start(); err != nil {
		res.SetupErr = err.Error()
		return
	}
	timer := time.AfterFunc(15*time.Minute, func() { cmd.Process.Kill() })
	werr := cmd.Wait()
	timer.Stop()
	out := stdout.String()
	if i := strings.Index(out, "C16D-RESULT "); i >= 0 {
		if json.Unmarshal([]byte(strings.TrimSpace(out[i+len("C16D-RESULT "):])), &res) == nil {
			return
		}
	}
	// no result line: the driver process died (Go panic, runtime fatal error, or an abort
	// in C code)
	msg := stderr.String()
	line := ""
	for _, l := range strings.Split(msg, "\n") {
		if strings.HasPrefix(l, "panic:") || strings.HasPrefix(l, "fatal error:") || strings.HasPrefix(l, "SIGABRT") ||
			strings.HasPrefix(l, "SIGSEGV") || strings.Contains(l, "double free") || strings.Contains(l, "corrupted") {
			line = l
			break
		}
	}
	if line == "" {
		line = fmt.Sprintf("exit: %v; stderr: %s", werr, firstLine(msg))
	}
	res.Crash = firstLine(line)
	return
}
