// Part (c): bigslice.FuncLocationsDiff on all pairs of location lists.
package main

import (
	"fmt"
	"strings"

	"github.com/grailbio/bigslice"
)

// applyDiff reads d as the documented format of FuncLocationsDiff (func.go:260-275:
// "a unified diff between the slices", one element per line; in the documented
// example  a / "- b" / c  the unprefixed lines are elements common to both lists,
// "- x" is an element of lhs that is not in rhs, and by symmetry "+ x" an element of
// rhs that is not in lhs) and applies it to from. ok=false if the script does not fit
// from (a context or deleted line does not match the next element, or elements are
// left over).
func applyDiff(from, d []string) (to []string, ok bool) {
	i := 0
	for _, line := range d {
		switch {
		case strings.HasPrefix(line, "- "):
			if i >= len(from) || from[i] != line[2:] {
				return nil, false
			}
			i++
		case strings.HasPrefix(line, "+ "):
			to = append(to, line[2:])
		default:
			if i >= len(from) || from[i] != line {
				return nil, false
			}
			to = append(to, line)
			i++
		}
	}
	if i != len(from) {
		return nil, false
	}
	return to, true
}

func invertDiff(d []string) []string {
	out := make([]string, len(d))
	for i, l := range d {
		switch {
		case strings.HasPrefix(l, "- "):
			out[i] = "+ " + l[2:]
		case strings.HasPrefix(l, "+ "):
			out[i] = "- " + l[2:]
		default:
			out[i] = l
		}
	}
	return out
}

func equalStrings(a, b []string) bool {
	if len(a) != len(b) {
		return false
	}
	for i := range a {
		if a[i] != b[i] {
			return false
		}
	}
	return true
}

// allLists returns every list of length <= maxLen over the alphabet, shortest first.
func allLists(alphabet []string, maxLen int) [][]string {
	out := [][]string{{}}
	prev := [][]string{{}}
	for l := 1; l <= maxLen; l++ {
		var next [][]string
		for _, p := range prev {
			for _, a := range alphabet {
				next = append(next, append(append([]string{}, p...), a))
			}
		}
		out = append(out, next...)
		prev = next
	}
	return out
}

type diffStats struct {
	pairs, equalPairs, nonEmpty int
	edits                       map[int]int // number of +/- lines -> pairs
}

// checkDiffs checks every ordered pair; report(sig, what, detail) is called per violation.
func checkDiffs(maxLen int, report func(sig, what, detail string)) diffStats {
	st := diffStats{edits: map[int]int{}}
	lists := allLists([]string{"a", "b", "c"}, maxLen)
	for _, lhs := range lists {
		for _, rhs := range lists {
			st.pairs++
			// the function must not modify its inputs
			l0, r0 := append([]string{}, lhs...), append([]string{}, rhs...)
			var d []string
			func() {
				defer func() {
					if e := recover(); e != nil {
						report("C16/diff/panic", "FuncLocationsDiff panics", fmt.Sprintf("lhs=%v rhs=%v: %v", lhs, rhs, e))
					}
				}()
				d = bigslice.FuncLocationsDiff(lhs, rhs)
			}()
			if !equalStrings(lhs, l0) || !equalStrings(rhs, r0) {
				report("C16/diff/modifies-input", "FuncLocationsDiff modifies its arguments", fmt.Sprintf("lhs=%v rhs=%v", l0, r0))
			}
			same := equalStrings(lhs, rhs)
			if same {
				st.equalPairs++
			}
			if len(d) > 0 {
				st.nonEmpty++
			}
			n := 0
			for _, l := range d {
				if strings.HasPrefix(l, "- ") || strings.HasPrefix(l, "+ ") {
					n++
				}
			}
			st.edits[n]++
			switch {
			case same && len(d) != 0:
				report("C16/diff/nonempty-for-equal-lists", "the diff of two equal registries is not empty",
					fmt.Sprintf("lhs=rhs=%v diff=%q", lhs, d))
			case !same && len(d) == 0:
				cls := "same-length"
				if len(lhs) != len(rhs) {
					cls = "different-length"
				}
				report("C16/diff/empty-for-different-lists/"+cls, "the diff of two different registries is empty",
					fmt.Sprintf("lhs=%v rhs=%v", lhs, rhs))
			case !same:
				// the statement: "otherwise transforms one into the other"; the documentation
				// fixes the direction lhs -> rhs. Either direction of a consistent edit script
				// is accepted (the inverse script then does the other direction).
				to, ok := applyDiff(lhs, d)
				if ok && equalStrings(to, rhs) {
					break
				}
				back, ok2 := applyDiff(rhs, d)
				if ok2 && equalStrings(back, lhs) {
					break
				}
				cls := "does-not-apply"
				if ok {
					cls = "wrong-result"
				}
				report("C16/diff/not-an-edit-script/"+cls, "the diff does not transform one registry into the other",
					fmt.Sprintf("lhs=%v rhs=%v diff=%q applied-to-lhs=%v(ok=%v)", lhs, rhs, d, to, ok))
			}
		}
	}
	return st
}
