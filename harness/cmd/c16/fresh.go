// Part (f): bigslice.FuncLocations describes the registry AS IT IS when asked.
//
// The driver compares FuncLocations() with each worker's answer whenever it starts
// machines; "a worker whose Func registry differs from the driver's is detected by
// the location comparison". The driver-side list must therefore follow the registry:
// a Func created after an earlier query (lazy creation — exactly the mistake the
// comparison exists to catch) must appear in the next answer. The registry and
// anything derived from it are process-global, so every sequence over
// {Q = query, R = register a Func} up to a depth runs in a fresh child process.
package main

import (
	"encoding/json"
	"fmt"
	"os"
	osexec "os/exec"
	"runtime"
	"strings"
	"time"

	"github.com/grailbio/bigslice"
)

type freshResult struct {
	Viol    []string // "signature|what"
	Queries int
	Regs    int
	Lens    []int
}

// freshRegister registers one more Func; it returns "file:line" of the bigslice.Func call.
func freshRegister() string {
	_, file, line, _ := runtime.Caller(0)
	_ = bigslice.Func(func() bigslice.Slice { return bigslice.Const(1, []int{1}) }) // line+1
	return fmt.Sprintf("%s:%d", file, line+1)
}

func freshChildMain(seq string) {
	var res freshResult
	viol := func(sig, what string) { res.Viol = append(res.Viol, sig+"|"+what) }
	initial := append([]string{}, bigslice.FuncLocations()...)
	res.Queries++
	model := append([]string{}, initial...)
	for i, op := range seq {
		switch op {
		case 'R':
			model = append(model, freshRegister())
			res.Regs++
		case 'Q':
			got := bigslice.FuncLocations()
			res.Queries++
			res.Lens = append(res.Lens, len(got))
			at := fmt.Sprintf("sequence Q %s, step %d", seq, i)
			if !equalStrings(got, model) {
				cls := "wrong-entries"
				switch {
				case len(got) < len(model):
					cls = "registered-func-missing"
				case len(got) > len(model):
					cls = "extra-entries"
				}
				viol("C16/func-locations/"+cls, fmt.Sprintf("%s: FuncLocations() has %d entries, the registry has %d Funcs (last entries %v, want %v)", at, len(got), len(model), tailStrings(got, 2), tailStrings(model, 2)))
			}
			// the comparison the driver makes against a worker that has only the initial registry
			d := bigslice.FuncLocationsDiff(got, initial)
			if len(model) != len(initial) && len(d) == 0 {
				viol("C16/func-locations/registry-difference-not-detected", fmt.Sprintf("%s: the driver has %d Funcs, the worker %d, but FuncLocationsDiff(FuncLocations(), worker's) is empty", at, len(model), len(initial)))
			}
			if len(model) == len(initial) && len(d) != 0 {
				viol("C16/func-locations/spurious-difference", fmt.Sprintf("%s: equal registries but diff %q", at, d))
			}
		}
	}
	b, _ := json.Marshal(res)
	fmt.Println("C16F-RESULT " + string(b))
}

func tailStrings(s []string, n int) []string {
	if len(s) > n {
		return s[len(s)-n:]
	}
	return s
}

// freshSequences: every word over {Q,R} of length 1..maxLen that contains an R
// followed later by a Q (other words cannot observe a registration).
func freshSequences(maxLen int) []string {
	var out []string
	words := []string{""}
	for l := 1; l <= maxLen; l++ {
		var next []string
		for _, w := range words {
			next = append(next, w+"Q", w+"R")
		}
		words = next
		for _, w := range words {
			if i := strings.IndexByte(w, 'R'); i >= 0 && strings.IndexByte(w[i:], 'Q') >= 0 {
				out = append(out, w)
			}
		}
	}
	return out
}

func runFresh(seq string) (freshResult, error) {
	var res freshResult
	exe, err := os.Executable()
	if err != nil {
		return res, err
	}
	cmd := osexec.Command(exe, "-c16f", seq)
	var stdout, stderr strings.Builder
	cmd.Stdout, cmd.Stderr = &stdout, &stderr
	if err := cmd.Start(); err != nil {
		return res, err
	}
	timer := time.AfterFunc(2*time.Minute, func() { cmd.Process.Kill() })
	werr := cmd.Wait()
	timer.Stop()
	out := stdout.String()
	if i := strings.Index(out, "C16F-RESULT "); i >= 0 {
		if json.Unmarshal([]byte(strings.TrimSpace(out[i+len("C16F-RESULT "):])), &res) == nil {
			return res, nil
		}
	}
	return res, fmt.Errorf("child for sequence %s exited (%v) without result: %s", seq, werr, firstLine(stderr.String()))
}
