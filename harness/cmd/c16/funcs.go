// Func registry, argument domains and the canonical description of argument values
// for the C16 check.
package main

import (
	"encoding/gob"
	"fmt"
	"hash/fnv"
	"math"
	"reflect"
	"sort"
	"strings"

	"github.com/grailbio/bigslice"
	"github.com/grailbio/bigslice/exec"
)

// ---- parameter types ----------------------------------------------------------

type T struct {
	A int
	S string
	F float64
	L []int
	M map[string]int
	P *int
}

// Sharded and NamedSlice are user interfaces that *exec.Result implements although they
// are not bigslice.Slice itself: a Result passed through such a parameter must still
// reach the worker as the worker-local Result.
type Sharded interface{ NumShard() int }
type NamedSlice interface{ bigslice.Slice }

func asSlice(x interface{}) bigslice.Slice {
	if x == nil {
		return nil
	}
	if s, ok := x.(bigslice.Slice); ok {
		return s
	}
	return nil
}

// Shape is a user-defined interface used as a Func parameter type.
type Shape interface{ Area() int }

type Circle struct{ R int }

func (c Circle) Area() int { return 3 * c.R * c.R }

type Square struct{ W int }

func (s *Square) Area() int {
	if s == nil {
		return -1
	}
	return s.W * s.W
}

// Unreg implements Shape but is NOT registered with gob: it cannot travel inside an interface.
type Unreg struct{ X int }

func (u Unreg) Area() int { return u.X }

func init() {
	// gob registers a type and its pointer type under ONE name (the base type), and the
	// registered form decides the dynamic type on arrival; so each concrete type is
	// registered in exactly the form in which the domains put it into interfaces.
	gob.Register(T{})
	gob.Register(map[string]int{})
	gob.Register(Circle{})
	gob.Register(&Square{})
}

// ---- canonical description of an argument value ----------------------------------
//
// Two values with the same description are "the same argument" as far as gob can
// express it. gob (package documentation) does not distinguish a nil slice/map from
// an empty one, omits zero-valued struct fields (so an empty slice/map field arrives
// nil), and flattens pointers (a pointer travels as the value it points to). The
// description therefore prints nil and empty slices/maps alike; everything else
// (dynamic type held by an interface, nil-ness of pointers, every element, float bits)
// is printed exactly. The domains below contain no pointer-to-zero-value inside a
// struct and no negative zero (the two remaining cases where gob documents a loss).

func describe(v interface{}) string { return describeNamed(v, nil) }

// describeNamed describes v; namer (may be nil) names *exec.Result values.
func describeNamed(v interface{}, namer func(*exec.Result) string) string {
	if v == nil {
		return "nil"
	}
	return describeValue(reflect.ValueOf(v), true, namer)
}

func describeValue(v reflect.Value, withType bool, resultName func(*exec.Result) string) string {
	describeValue := func(v reflect.Value, withType bool) string { return describeValue(v, withType, resultName) }
	pre := ""
	if withType {
		pre = v.Type().String() + ":"
	}
	switch v.Kind() {
	case reflect.Int, reflect.Int64:
		return fmt.Sprintf("%s%d", pre, v.Int())
	case reflect.Bool:
		return fmt.Sprintf("%s%v", pre, v.Bool())
	case reflect.String:
		return fmt.Sprintf("%s%q", pre, v.String())
	case reflect.Float64:
		return fmt.Sprintf("%sf%016x", pre, math.Float64bits(v.Float()))
	case reflect.Slice:
		var el []string
		for i := 0; i < v.Len(); i++ {
			el = append(el, describeValue(v.Index(i), false))
		}
		return pre + "[" + strings.Join(el, " ") + "]"
	case reflect.Map:
		var el []string
		for _, k := range v.MapKeys() {
			el = append(el, describeValue(k, false)+"="+describeValue(v.MapIndex(k), false))
		}
		sort.Strings(el)
		return pre + "{" + strings.Join(el, " ") + "}"
	case reflect.Ptr:
		if v.IsNil() {
			return pre + "nilptr"
		}
		if r, ok := v.Interface().(*exec.Result); ok {
			if resultName == nil {
				return pre + "result"
			}
			return pre + resultName(r)
		}
		return pre + "&" + describeValue(v.Elem(), false)
	case reflect.Struct:
		var el []string
		for i := 0; i < v.NumField(); i++ {
			el = append(el, v.Type().Field(i).Name+"="+describeValue(v.Field(i), false))
		}
		return pre + "{" + strings.Join(el, " ") + "}"
	case reflect.Interface:
		if v.IsNil() {
			return pre + "nil"
		}
		return pre + describeValue(v.Elem(), true)
	case reflect.Func:
		return pre + "func"
	case reflect.Chan:
		return pre + "chan"
	}
	return pre + fmt.Sprintf("?%v", v.Kind())
}

// ---- the slice a Func builds: a function of the DESCRIPTION of its arguments -------

func hash32(s string) uint32 {
	h := fnv.New32a()
	h.Write([]byte(s))
	return h.Sum32()
}

// buildFrom builds a program whose shape (shard counts, operators, stage structure)
// is determined by desc (and by which slice inputs are non-nil), so that a worker
// that received different arguments compiles a visibly different graph.
func buildFrom(desc string, shards int, in ...bigslice.Slice) bigslice.Slice {
	h := hash32(desc)
	n := int(h%3) + 1
	if shards >= 1 && shards <= 3 {
		n = shards
	}
	shape := int(h/3) % 4
	m := int(h/12)%3 + 1
	var s bigslice.Slice
	var extra []bigslice.Slice
	for _, x := range in {
		if x == nil || reflect.ValueOf(x).Kind() == reflect.Ptr && reflect.ValueOf(x).IsNil() {
			continue
		}
		// a Result is always consumed through a Map here (C16 does not depend on how a
		// result fed directly into a shuffle compiles; that is C08's business)
		y := bigslice.Map(x, func(k, v int) (int, int) { return k, v })
		if s == nil {
			s = y
		} else {
			extra = append(extra, y)
		}
	}
	if s == nil {
		s = bigslice.Const(n, []int{0, 1, 2, 3, 4, 5}, []int{int(h % 7), 1, 2, 3, 4, 5})
	}
	switch shape {
	case 0:
		s = bigslice.Map(s, func(k, v int) (int, int) { return k, v + 1 })
	case 1:
		s = bigslice.Reduce(bigslice.Map(s, func(k, v int) (int, int) { return k % 2, v }), func(a, b int) int { return a + b })
	case 2:
		s = bigslice.Filter(bigslice.Reshuffle(s), func(k, v int) bool { return true })
	case 3:
		s = bigslice.Map(bigslice.Reshard(s, m), func(k, v int) (int, int) { return k, v })
	}
	for _, e := range extra {
		s = bigslice.Map(bigslice.Cogroup(s, e), func(k int, a, b []int) (int, int) { return k, len(a) + len(b) })
	}
	return s
}

func descAll(args ...interface{}) string {
	d := make([]string, len(args))
	for i, a := range args {
		d[i] = describe(a)
	}
	return strings.Join(d, " | ")
}

// ---- the registry (fixed order; identical in parent and children) ---------------------

var registry = []*bigslice.FuncValue{
	/* 0 */ bigslice.Func(func(n int, s string, f float64) bigslice.Slice { return buildFrom(descAll(n, s, f), 0) }),
	/* 1 */ bigslice.Func(func(l []int, m map[string]int) bigslice.Slice { return buildFrom(descAll(l, m), 0) }),
	/* 2 */ bigslice.Func(func(t T) bigslice.Slice { return buildFrom(descAll(t), 0) }),
	/* 3 */ bigslice.Func(func(p *T) bigslice.Slice { return buildFrom(descAll(p), 0) }),
	/* 4 */ bigslice.Func(func(x interface{}) bigslice.Slice { return buildFrom(descAll(x), 0) }),
	/* 5 */ bigslice.Func(func(sh Shape) bigslice.Slice {
		area := -2
		if sh != nil {
			area = sh.Area()
		}
		return buildFrom(descAll(sh, area), 0)
	}),
	/* 6 */ bigslice.Func(func(in bigslice.Slice) bigslice.Slice { return buildFrom(descAll(in), 0, in) }),
	/* 7 */ bigslice.Func(func(r *exec.Result) bigslice.Slice { return buildFrom(descAll(r), 0, r) }),
	/* 8 */ bigslice.Func(func(n int, x interface{}, in bigslice.Slice) bigslice.Slice {
		return buildFrom(descAll(n, x, in), n, in)
	}),
	/* 9 */ bigslice.Func(func(a *exec.Result, b bigslice.Slice, sh Shape) bigslice.Slice {
		return buildFrom(descAll(a, b, sh), 0, a, b)
	}),
	/* 10 */ bigslice.Func(func(n int, fn func() int) bigslice.Slice { return buildFrom(descAll(n, fn), n) }),
	/* 11 */ bigslice.Func(func(n int, ch chan int) bigslice.Slice { return buildFrom(descAll(n, ch), n) }),
	/* 12 */ bigslice.Func(func(t T, p *T, x interface{}, y interface{}) bigslice.Slice {
		return buildFrom(descAll(t, p, x, y), 0)
	}),
	/* 13 */ bigslice.Func(func(n int, sh Shape) bigslice.Slice { return buildFrom(descAll(n, sh), n) }),
	/* 14 */ bigslice.Func(func(x interface{}) bigslice.Slice { return buildFrom(descAll(x), 0) }).Exclusive(),
	// 15-18: DAGs of results, run end-to-end (part (d)); rows are (k, value)
	/* 15 */ bigslice.Func(func(n int) bigslice.Slice {
		return bigslice.Map(bigslice.Const(n, []int{0, 1, 2, 3, 4, 5}, []int{0, 1, 2, 3, 4, 5}), func(k, v int) (int, int) { return k, v })
	}),
	/* 16 */ bigslice.Func(func(in bigslice.Slice, add int) bigslice.Slice {
		return bigslice.Map(in, func(k, v int) (int, int) { return k, v + add })
	}),
	/* 17 */ bigslice.Func(func(a *exec.Result, b bigslice.Slice, shards int) bigslice.Slice { return joinSum(shards, a, b) }),
	/* 18 */ bigslice.Func(func(a, b, c bigslice.Slice, shards int) bigslice.Slice { return joinSum(shards, a, b, c) }),
	// 19-23: REPEATED parameter types (two slices, two structs, two maps, two pointers,
	// and interleaved): each argument must arrive as itself, not mixed with its siblings
	/* 19 */ bigslice.Func(func(a, b []int) bigslice.Slice { return buildFrom(descAll(a, b), 0) }),
	/* 20 */ bigslice.Func(func(a, b T) bigslice.Slice { return buildFrom(descAll(a, b), 0) }),
	/* 21 */ bigslice.Func(func(a, b map[string]int) bigslice.Slice { return buildFrom(descAll(a, b), 0) }),
	/* 22 */ bigslice.Func(func(a, b *T) bigslice.Slice { return buildFrom(descAll(a, b), 0) }),
	/* 23 */ bigslice.Func(func(a []int, t T, b []int, m map[string]int, u T, n map[string]int) bigslice.Slice {
		return buildFrom(descAll(a, t, b, m, u, n), 0)
	}),
	/* 24 */ bigslice.Func(func(a, b, c []int) bigslice.Slice { return buildFrom(descAll(a, b, c), 0) }),
	// 25-26: a Result passed through an interface type that is not bigslice.Slice itself
	/* 25 */ bigslice.Func(func(x Sharded) bigslice.Slice { return buildFrom(descAll(x), 0, asSlice(x)) }),
	/* 26 */ bigslice.Func(func(n int, x NamedSlice) bigslice.Slice { return buildFrom(descAll(n, x), n, asSlice(x)) }),
}

func sum(xs ...[]int) int {
	t := 0
	for _, x := range xs {
		for _, v := range x {
			t += v
		}
	}
	return t
}

// joinSum joins result arguments by key into a slice of the given number of shards
// (so that its tasks need more procs than the machines that computed the arguments
// have); row (k, sum of the values of k in all inputs).
func joinSum(shards int, in ...bigslice.Slice) bigslice.Slice {
	var cs []bigslice.Slice
	for i, x := range in {
		y := bigslice.Map(x, func(k, v int) (int, int) { return k, v })
		if i == 0 {
			y = bigslice.Reshard(y, shards)
		}
		cs = append(cs, y)
	}
	cg := bigslice.Cogroup(cs...)
	if len(cs) == 2 {
		return bigslice.Map(cg, func(k int, a, b []int) (int, int) { return k, sum(a, b) })
	}
	return bigslice.Map(cg, func(k int, a, b, c []int) (int, int) { return k, sum(a, b, c) })
}

// ---- argument domains -------------------------------------------------------------------

// A val is one element of a parameter domain.
type val struct {
	label string      // class label used in signatures and statistics
	v     interface{} // the argument (nil = untyped nil)
	res   int         // >0: the argument is the result of producer chain #res (filled in per case)
}

func ip(i int) *int { return &i }

var (
	domInt    = []val{{"0", 0, 0}, {"1", 1, 0}, {"neg", -7, 0}, {"maxint", math.MaxInt64, 0}}
	domString = []val{{"empty", "", 0}, {"a", "a", 0}, {"utf8+nul", "héllo\x00", 0}}
	domFloat  = []val{{"0", 0.0, 0}, {"1.5", 1.5, 0}, {"big-neg", -2.25e10, 0}, {"NaN", math.NaN(), 0}, {"+Inf", math.Inf(1), 0}}
	domInts   = []val{{"untyped-nil", nil, 0}, {"typed-nil", []int(nil), 0}, {"empty", []int{}, 0}, {"one-zero", []int{0}, 0}, {"three", []int{1, 2, 3}, 0}}
	domMap    = []val{{"untyped-nil", nil, 0}, {"typed-nil", map[string]int(nil), 0}, {"empty", map[string]int{}, 0}, {"one", map[string]int{"a": 1}, 0},
		{"two-with-zero", map[string]int{"a": 0, "b": -2}, 0}}
	domT = []val{{"zero", T{}, 0},
		{"full", T{A: 1, S: "x", F: 2.5, L: []int{1, 0}, M: map[string]int{"k": 1}, P: ip(7)}, 0},
		{"empty-containers", T{L: []int{}, M: map[string]int{}}, 0},
		{"neg", T{A: -1, F: math.Inf(-1)}, 0}}
	domPT = []val{{"untyped-nil", nil, 0}, {"typed-nil", (*T)(nil), 0}, {"ptr-zero", &T{}, 0}, {"ptr-full", &T{A: 3, S: "y", P: ip(5)}, 0}}
	domAny = []val{{"untyped-nil", nil, 0}, {"int0", 0, 0}, {"int5", 5, 0}, {"string", "s", 0}, {"float", 2.5, 0}, {"bool", true, 0},
		{"[]int", []int{1, 2}, 0}, {"T", T{A: 1}, 0}, {"map", map[string]int{"a": 1}, 0}, {"Circle", Circle{2}, 0},
		{"*Square", &Square{3}, 0}, {"typed-nil-*T", (*T)(nil), 0}}
	domShape = []val{{"untyped-nil", nil, 0}, {"Circle0", Circle{0}, 0}, {"Circle3", Circle{3}, 0}, {"*Square", &Square{2}, 0}, {"typed-nil-*Square", (*Square)(nil), 0}}
	// results: res=1 is the result of f0(1,"a",1.5); res=2 is the (nested) result of f6(result 1)
	domSlice  = []val{{"untyped-nil", nil, 0}, {"result", nil, 1}, {"nested-result", nil, 2}}
	domResult = []val{{"untyped-nil", nil, 0}, {"result", nil, 1}, {"nested-result", nil, 2}}
	domShard  = []val{{"1", 1, 0}, {"3", 3, 0}}
)

// paramDomains lists, per registry entry, the domain of each parameter for part (a).
var paramDomains = map[int][][]val{
	0:  {domInt, domString, domFloat},
	1:  {domInts, domMap},
	2:  {domT},
	3:  {domPT},
	4:  {domAny},
	5:  {domShape},
	6:  {domSlice},
	7:  {domResult},
	8:  {domInt, domAny, domSlice},
	9:  {domResult, domSlice, domShape},
	12: {domT, domPT, domAny, domAny},
	13: {domShard, domShape},
	14: {domAny},
	19: {domInts, domInts},
	20: {domT, domT},
	21: {domMap, domMap},
	22: {domPT, domPT},
	23: {domInts[3:], domT[:2], domInts[3:], domMap[3:], domT[:2], domMap[3:]},
	24: {domInts[2:], domInts[2:], domInts[2:]},
	25: {domSlice},
	26: {domShard, domSlice},
}

// named domains, so that a value can be named across processes as "<domain>/<label>"
var domains = map[string][]val{
	"int": domInt, "string": domString, "float": domFloat, "ints": domInts, "map": domMap, "T": domT, "PT": domPT,
	"any": domAny, "shape": domShape, "slice": domSlice, "result": domResult, "shard": domShard,
	"un": {unFunc, unChan, unUnreg, unFuncAny, unChanAny},
}

// valName returns the cross-process name of a domain value.
func valName(v val) string {
	for d, vs := range domains {
		for _, x := range vs {
			if x.label == v.label && x.res == v.res && reflect.TypeOf(x.v) == reflect.TypeOf(v.v) {
				return d + "/" + x.label
			}
		}
	}
	panic("value not in a named domain: " + v.label)
}

func valByName(name string) val {
	i := strings.Index(name, "/")
	for _, x := range domains[name[:i]] {
		if x.label == name[i+1:] {
			return x
		}
	}
	panic("unknown value " + name)
}

// unencodable values for part (b)
var (
	unFunc    = val{"func", func() int { return 1 }, 0}
	unChan    = val{"chan", make(chan int), 0}
	unUnreg   = val{"unregistered-in-interface", Unreg{1}, 0}
	unFuncAny = val{"func-in-interface", func() {}, 0}
	unChanAny = val{"chan-in-interface", make(chan string), 0}
)
