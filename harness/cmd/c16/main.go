// C16 — invocations reach workers intact; registry or argument problems fail fast.
//
// (a) every argument list of the enumerated universe (funcs.go) is registered and
//     encoded by the real driver code (addInvocation: *Result -> invocationRef;
//     execInvocation.GobEncode, through the on-disk invocation cache for a fixed
//     subset), decoded by the real execInvocation.GobDecode, compiled by a real
//     (*worker).Compile in this process and in a separately started child process.
//     Oracle: the list either cannot be encoded (an error, at once) or it arrives
//     intact: every decoded argument has the description of the original (Results
//     become the worker-local result of the same invocation) and the graph compiled
//     from it is the driver's graph.
// (b) argument lists that cannot be encoded, run on a verifsystem cluster of 1 and 2
//     machines: Run returns an error, no Worker.Run RPC is ever made, and
//     Worker.Compile is attempted at most once per machine and invocation.
// (c) FuncLocationsDiff on all pairs of lists of length <= 4 over {a,b,c}.
// (d) see dag.go. (f) see fresh.go.
package main

import (
	"bufio"
	"context"
	"encoding/gob"
	"encoding/json"
	"flag"
	"fmt"
	"io"
	"os"
	osexec "os/exec"
	"reflect"
	"regexp"
	"runtime"
	"sort"
	"strings"
	"sync"
	"sync/atomic"
	"time"

	"github.com/grailbio/bigslice"
	"github.com/grailbio/bigslice/exec"
	"verifh/ev"
	"verifh/vsys"
)

var childFlag = flag.Bool("c16child", false, "internal: run as decode/compile server (child process)")
var bFlag = flag.String("c16b", "", "internal: run one part-(b) scenario in this (child) process: fn;machines;val,val,...")
var dFlag = flag.String("c16d", "", "internal: run one part-(d) scenario in this (child) process")
var fFlag = flag.String("c16f", "", "internal: run one part-(f) sequence over {Q,R} in this (child) process")
var onlyFlag = flag.String("only", "", "only run parts: any of a,b,c,d,e,f")

// ---- cases of part (a) ---------------------------------------------------------------

type Case struct {
	Fn   int
	Vals []val
	MC   bool
}

func (c Case) labels() string {
	l := make([]string, len(c.Vals))
	for i, v := range c.Vals {
		l[i] = v.label
	}
	return fmt.Sprintf("f%d(%s)", c.Fn, strings.Join(l, ", "))
}

func (c Case) String() string { return fmt.Sprintf("%s mc=%v", c.labels(), c.MC) }

func enumerateA() []Case {
	var out []Case
	var fns []int
	for fn := range paramDomains {
		fns = append(fns, fn)
	}
	sort.Ints(fns)
	for _, fn := range fns {
		doms := paramDomains[fn]
		idx := make([]int, len(doms))
		for {
			vals := make([]val, len(doms))
			for i, d := range doms {
				vals[i] = d[idx[i]]
			}
			out = append(out, Case{Fn: fn, Vals: vals, MC: false}, Case{Fn: fn, Vals: vals, MC: true})
			k := len(idx) - 1
			for k >= 0 {
				idx[k]++
				if idx[k] < len(doms[k]) {
					break
				}
				idx[k] = 0
				k--
			}
			if k < 0 {
				break
			}
		}
	}
	return out
}

// normArg is the value the Func receives for an argument: an untyped nil becomes the
// zero value of the parameter type (FuncValue.applyValue).
func normArg(t reflect.Type, a interface{}) interface{} {
	if a == nil {
		return reflect.Zero(t).Interface()
	}
	return a
}

// built is a case built on the driver.
type built struct {
	invs  []*exec.VerifC16Inv // producers (0..2) then the invocation under test
	tasks [][]*exec.Task
	ord   ordMap
	args  []interface{}
	desc  []string // description of each original argument
}

func needProducers(c Case) int {
	n := 0
	for _, v := range c.Vals {
		if v.res > n {
			n = v.res
		}
	}
	return n
}

func buildA(c Case) (*built, error) {
	b := &built{ord: ordMap{}}
	var results []*exec.Result
	add := func(fv *bigslice.FuncValue, loc string, args ...interface{}) (*exec.VerifC16Inv, error) {
		inv, err := exec.VerifC16Invoke(fv, loc, args...)
		if err != nil {
			return nil, err
		}
		b.ord[inv.Index()] = len(b.invs)
		tasks, err := inv.Compile(c.MC)
		if err != nil {
			return nil, err
		}
		inv.Freeze()
		b.invs = append(b.invs, inv)
		b.tasks = append(b.tasks, tasks)
		results = append(results, inv.Result(tasks))
		return inv, nil
	}
	np := needProducers(c)
	if np >= 1 {
		if _, err := add(registry[0], "c16:p1", 1, "a", 1.5); err != nil {
			return nil, err
		}
	}
	if np >= 2 {
		if _, err := add(registry[6], "c16:p2", results[0]); err != nil {
			return nil, err
		}
	}
	for _, v := range c.Vals {
		if v.res > 0 {
			b.args = append(b.args, results[v.res-1])
		} else {
			b.args = append(b.args, v.v)
		}
	}
	namer := func(r *exec.Result) string { return "result(inv" + b.ord.idx(exec.VerifC16ResultInvIndex(r)) + ")" }
	fv := registry[c.Fn]
	for i, a := range b.args {
		b.desc = append(b.desc, describeNamed(normArg(fv.In(i), a), namer))
	}
	// args are copied: addInvocation replaces *Result elements of the slice it is given
	if _, err := add(fv, "c16:case", append([]interface{}{}, b.args...)...); err != nil {
		return nil, err
	}
	return b, nil
}

// ---- worker side (in-process and child) -----------------------------------------------

type Job struct {
	ID   int
	MC   bool
	Invs [][]byte
	Top  uint64
	Ord  map[uint64]int
}

type Reply struct {
	ID      int
	Err     string
	Dump    string
	ArgDesc []string
	Meta    string
}

func workerSide(j *Job) (rep Reply) {
	rep.ID = j.ID
	defer func() {
		if e := recover(); e != nil {
			rep.Err = fmt.Sprintf("panic: %v", e)
		}
	}()
	w := exec.VerifC16NewWorker(j.MC)
	for i, p := range j.Invs {
		if err := w.Compile(p); err != nil {
			rep.Err = fmt.Sprintf("Worker.Compile of invocation %d: %v", i, err)
			return
		}
	}
	o := ordMap(j.Ord)
	roots := w.Roots(j.Top)
	if roots == nil {
		rep.Err = "worker has no result for the invocation"
		return
	}
	rep.Dump = canonGraph(o, roots)
	namer := func(r *exec.Result) string {
		for idx := range j.Ord {
			if w.Result(idx) == r {
				return "result(inv" + o.idx(idx) + ")"
			}
		}
		return "result(not-worker-local)"
	}
	var own *exec.Task
	for _, t := range roots {
		if t.Name.InvIndex == j.Top {
			own = t
		}
	}
	if own == nil {
		rep.Err = "no root task belongs to the invocation"
		return
	}
	for _, a := range exec.VerifC16TaskArgs(own) {
		rep.ArgDesc = append(rep.ArgDesc, describeNamed(a, namer))
	}
	return
}

func childMain() {
	vsys.Quiet()
	dec := gob.NewDecoder(bufio.NewReaderSize(os.Stdin, 1<<20))
	out := bufio.NewWriterSize(os.Stdout, 1<<20)
	enc := gob.NewEncoder(out)
	var mu sync.Mutex
	jobs := make(chan *Job, 64)
	var wg sync.WaitGroup
	for k := 0; k < 8; k++ {
		wg.Add(1)
		go func() {
			defer wg.Done()
			for j := range jobs {
				rep := workerSide(j)
				mu.Lock()
				if err := enc.Encode(&rep); err != nil {
					fmt.Fprintln(os.Stderr, "c16 child: encode:", err)
					os.Exit(3)
				}
				mu.Unlock()
			}
		}()
	}
	for {
		j := new(Job)
		if err := dec.Decode(j); err != nil {
			if err != io.EOF {
				fmt.Fprintln(os.Stderr, "c16 child: decode:", err)
				os.Exit(3)
			}
			break
		}
		jobs <- j
	}
	close(jobs)
	wg.Wait()
	out.Flush()
}

func runChild(jobs []*Job) (map[int]*Reply, error) {
	exe, err := os.Executable()
	if err != nil {
		return nil, err
	}
	cmd := osexec.Command(exe, "-c16child")
	cmd.Stderr = os.Stderr
	stdin, err := cmd.StdinPipe()
	if err != nil {
		return nil, err
	}
	stdout, err := cmd.StdoutPipe()
	if err != nil {
		return nil, err
	}
	if err := cmd.Start(); err != nil {
		return nil, err
	}
	timer := time.AfterFunc(10*time.Minute, func() { cmd.Process.Kill() })
	defer timer.Stop()
	go func() {
		w := bufio.NewWriterSize(stdin, 1<<20)
		enc := gob.NewEncoder(w)
		for _, j := range jobs {
			if err := enc.Encode(j); err != nil {
				break
			}
		}
		w.Flush()
		stdin.Close()
	}()
	replies := map[int]*Reply{}
	dec := gob.NewDecoder(bufio.NewReaderSize(stdout, 1<<20))
	for {
		rep := new(Reply)
		if err := dec.Decode(rep); err != nil {
			if err != io.EOF {
				return nil, fmt.Errorf("child: reading replies: %v", err)
			}
			break
		}
		replies[rep.ID] = rep
	}
	if err := cmd.Wait(); err != nil {
		return nil, fmt.Errorf("child: %v", err)
	}
	if len(replies) != len(jobs) {
		return nil, fmt.Errorf("child: %d replies for %d jobs", len(replies), len(jobs))
	}
	return replies, nil
}

// ---- collector ---------------------------------------------------------------------------

type finding struct {
	sig, what string
	detail    map[string]interface{}
	order     int
}

type collector struct {
	mu    sync.Mutex
	first map[string]*finding
	count map[string]int
}

func (c *collector) add(order int, sig, what string, detail map[string]interface{}) {
	c.mu.Lock()
	defer c.mu.Unlock()
	c.count[sig]++
	if f, ok := c.first[sig]; !ok || order < f.order {
		c.first[sig] = &finding{sig, what, detail, order}
	}
}

var encArgRe = regexp.MustCompile(`encoding arg ([0-9]+)`)

type caseState struct {
	c       Case
	idx     int
	dumpA   string
	desc    []string
	job     *Job
	outcome string // "intact" | "encode-error"
}

// ---- main -----------------------------------------------------------------------------------

func main() {
	flag.Parse()
	if *childFlag {
		childMain()
		return
	}
	if *bFlag != "" {
		bChildMain(*bFlag)
		return
	}
	if *dFlag != "" {
		dagChildMain(*dFlag)
		return
	}
	if *fFlag != "" {
		freshChildMain(*fFlag)
		return
	}
	vsys.Quiet()
	vsys.FastRetries()
	r := ev.Start("C16", "exploration")
	col := &collector{first: map[string]*finding{}, count: map[string]int{}}
	want := func(part string) bool { return *onlyFlag == "" || strings.Contains(*onlyFlag, part) }
	cov := ev.Coverage{}
	var evaluations, nontrivial int64
	outcomes := ev.NewCounter()

	// ---------------- (a) ----------------
	type encClass struct {
		c   Case
		arg int
		msg string
	}
	encClasses := map[string]encClass{}
	var encMu sync.Mutex
	if want("a") {
		cases := enumerateA()
		states := make([]*caseState, len(cases))
		var nDisk, nIntact, nEncErr, nResultArgs, nViews int64
		distinctLists := ev.NewCounter()
		ev.Parallel(len(cases), runtime.NumCPU(), func(i int) {
			c := cases[i]
			cs := &caseState{c: c, idx: i}
			states[i] = cs
			viol := func(check, what, detail string) {
				col.add(i, fmt.Sprintf("C16/args/%s", check), what, map[string]interface{}{"case": c.String(), "func": c.Fn, "detail": detail})
			}
			b, err := buildA(c)
			if err != nil {
				ev.Fatal("case %v: the driver cannot invoke/compile: %v", c, err)
			}
			top := len(b.invs) - 1
			cs.dumpA = canonGraph(b.ord, b.tasks[top])
			cs.desc = b.desc
			// the real on-disk invocation cache costs ~90 ms CPU (zstd context) per
			// invocation: quick tier uses it for the small Funcs and every 8th list of
			// the large products; thorough for everything (mc=false cases only).
			viaDisk := !c.MC && (r.Thorough() || (c.Fn != 8 && c.Fn != 12) || i%16 == 0)
			d := exec.VerifC16NewDriver()
			defer d.Close()
			job := &Job{ID: i, MC: c.MC, Top: b.invs[top].Index(), Ord: b.ord}
			for s, inv := range b.invs {
				p, err := d.Ship(inv, viaDisk)
				if err != nil {
					if s != top {
						ev.Fatal("case %v: producer invocation cannot be shipped: %v", c, err)
					}
					// not encodable: allowed outcome ("a prompt fatal error"); the cluster
					// behaviour of every class of these is checked in part (b)
					cs.outcome = "encode-error"
					atomic.AddInt64(&nEncErr, 1)
					arg := -1
					if m := encArgRe.FindStringSubmatch(err.Error()); m != nil {
						fmt.Sscanf(m[1], "%d", &arg)
					} else {
						// gob panicked instead of returning an error (no argument index in
						// the message): the culprit is a nil pointer passed for a pointer parameter
						for k, a := range b.args {
							if v := reflect.ValueOf(a); a != nil && v.Kind() == reflect.Ptr && v.IsNil() && registry[c.Fn].In(k).Kind() == reflect.Ptr {
								arg = k
								break
							}
						}
					}
					lab := "?"
					if arg >= 0 && arg < len(c.Vals) {
						lab = c.Vals[arg].label
					}
					key := fmt.Sprintf("f%d/arg%d/%s", c.Fn, arg, lab)
					outcomes.Add("encode-error:" + key)
					encMu.Lock()
					if old, ok := encClasses[key]; !ok || i < indexOf(cases, old.c) {
						encClasses[key] = encClass{c, arg, err.Error()}
					}
					encMu.Unlock()
					return
				}
				job.Invs = append(job.Invs, p)
			}
			if viaDisk {
				atomic.AddInt64(&nDisk, 1)
			}
			cs.outcome = "intact"
			cs.job = job
			outcomes.Add("transported")
			// raw codec: decode with the real GobDecode and compare field by field
			atomic.AddInt64(&evaluations, 1)
			dec, err := exec.VerifC16Decode(job.Invs[top])
			if err != nil {
				viol("decode-error", "an invocation the driver encoded cannot be decoded", err.Error())
				return
			}
			inv := b.invs[top]
			if dec.Index != inv.Index() || dec.Func != inv.Func() || dec.Exclusive != inv.Exclusive() || dec.Location != inv.Location() {
				viol("header", "index/func/exclusive/location changed in transit",
					fmt.Sprintf("sent %d/%d/%v/%q got %d/%d/%v/%q", inv.Index(), inv.Func(), inv.Exclusive(), inv.Location(), dec.Index, dec.Func, dec.Exclusive, dec.Location))
			}
			if dec.EnvWritable {
				viol("env-writable", "the transported compile environment is writable", "")
			}
			if len(dec.Args) != len(b.args) {
				viol("arg-count", "number of arguments changed in transit", fmt.Sprintf("%d -> %d", len(b.args), len(dec.Args)))
				return
			}
			hasResult := false
			for k, orig := range b.args {
				if res, ok := orig.(*exec.Result); ok && res != nil {
					hasResult = true
					ref, isRef := exec.VerifC16RefIndex(dec.Args[k])
					if !isRef || ref != exec.VerifC16ResultInvIndex(res) {
						viol("result-ref/param="+registry[c.Fn].In(k).String(), "a Result argument does not arrive as a reference to its invocation",
							fmt.Sprintf("arg %d: got %s", k, describe(dec.Args[k])))
					}
					continue
				}
				if got := describe(dec.Args[k]); got != b.desc[k] {
					viol("decoded-arg/param="+registry[c.Fn].In(k).String(), "a decoded argument differs from the original",
						fmt.Sprintf("arg %d: sent %s, decoded %s", k, b.desc[k], got))
				}
			}
			if hasResult {
				atomic.AddInt64(&nResultArgs, 1)
			}
			distinctLists.Add(fmt.Sprintf("f%d|%s", c.Fn, strings.Join(b.desc, "|")))
			// in-process worker
			checkWorkerReply(cs, "worker-inprocess", workerSide(job), viol)
			atomic.AddInt64(&evaluations, 1)
			atomic.AddInt64(&nViews, 1)
			atomic.AddInt64(&nIntact, 1)
		})
		// child process
		var jobs []*Job
		for _, cs := range states {
			if cs.job != nil {
				jobs = append(jobs, cs.job)
			}
		}
		reps, err := runChild(jobs)
		if err != nil {
			ev.Fatal("%v", err)
		}
		for _, cs := range states {
			if cs.job == nil {
				continue
			}
			cs := cs
			viol := func(check, what, detail string) {
				col.add(cs.idx, fmt.Sprintf("C16/args/%s", check), what, map[string]interface{}{"case": cs.c.String(), "func": cs.c.Fn, "detail": detail})
			}
			checkWorkerReply(cs, "child-process", *reps[cs.idx], viol)
			evaluations++
			nViews++
		}
		nontrivial += int64(distinctLists.Distinct())
		cov["a_argument_lists"] = len(cases)
		cov["a_transported_intact_checked"] = nIntact
		cov["a_not_encodable"] = nEncErr
		cov["a_not_encodable_classes"] = len(encClasses)
		cov["a_lists_with_result_args"] = nResultArgs
		cov["a_via_real_disk_cache"] = nDisk
		cov["a_worker_views"] = nViews
		cov["a_distinct_transported_lists"] = distinctLists.Distinct()
		var ks []string
		for k, e := range encClasses {
			ks = append(ks, k+": "+firstLine(e.msg))
		}
		sort.Strings(ks)
		r.Note("(a) argument lists that the codec rejects (allowed outcome), by class: %v", ks)
		for i, cs := range states {
			if cs.job != nil && i%(len(states)/6+1) == 0 {
				r.Sample(map[string]interface{}{"case": cs.c.String(), "args": cs.desc, "graph": cs.dumpA})
			}
		}
	}

	// ---------------- (b) ----------------
	if want("b") {
		type scen struct {
			name   string
			fn     int
			vals   []val
			origin string
		}
		var scens []scen
		for _, n := range domShard {
			scens = append(scens,
				scen{"func", 10, []val{n, unFunc}, "designed"},
				scen{"chan", 11, []val{n, unChan}, "designed"},
				scen{"unregistered-in-user-interface", 13, []val{n, unUnreg}, "designed"},
				scen{"unregistered-in-interface+result-dep", 8, []val{n, unUnreg, domSlice[1]}, "designed"},
				scen{"func-in-interface+nested-result-dep", 8, []val{n, unFuncAny, domSlice[2]}, "designed"},
			)
		}
		scens = append(scens,
			scen{"unregistered-in-interface", 4, []val{unUnreg}, "designed"},
			scen{"func-in-interface", 4, []val{unFuncAny}, "designed"},
			scen{"chan-in-interface", 4, []val{unChanAny}, "designed"},
			scen{"unregistered-in-interface/exclusive-func", 14, []val{unUnreg}, "designed"},
			scen{"unregistered-last-arg", 12, []val{domT[1], domPT[3], domAny[2], unUnreg}, "designed"},
			scen{"unregistered-middle-arg", 12, []val{domT[1], domPT[3], unUnreg, domAny[2]}, "designed"},
		)
		var ks []string
		for k := range encClasses {
			ks = append(ks, k)
		}
		sort.Strings(ks)
		for _, k := range ks {
			e := encClasses[k]
			scens = append(scens, scen{"from-(a):" + k, e.c.Fn, e.c.Vals, "discovered"})
		}
		var nRuns, nFired, nHangs, nSkipped int64
		type task struct {
			s        scen
			machines int
		}
		var tasks []task
		for _, s := range scens {
			sizes := []int{1, 2}
			if r.Thorough() {
				sizes = []int{1, 2, 3}
			}
			for _, m := range sizes {
				tasks = append(tasks, task{s, m})
			}
		}
		ev.Parallel(len(tasks), 8, func(i int) {
			t := tasks[i]
			if atomic.LoadInt64(&nHangs) >= 2 {
				// two scenarios already hang (3 x 60 s each): do not spend 3 minutes on each
				// of the remaining ones
				atomic.AddInt64(&nSkipped, 1)
				return
			}
			var res bResult
			for attempt := 0; attempt < 3; attempt++ {
				res = runUnencodableChild(t.s.fn, t.s.vals, t.machines)
				// a hang (of the failing Run, or of a producer Run during set-up: verifsystem's
				// 60 ms keepalive deadline can kill machines on an overloaded host) is re-run
				if !res.Hang && res.SetupErr == "" {
					break
				}
			}
			atomic.AddInt64(&nRuns, 1)
			atomic.AddInt64(&evaluations, 1)
			// signature class: the kind of unencodable value (not the Func it was passed to)
			sigBase := fmt.Sprintf("C16/unencodable/%%s/%s", t.s.name)
			if t.s.origin == "discovered" {
				sigBase = fmt.Sprintf("C16/unencodable/%%s/%s", t.s.name[strings.LastIndex(t.s.name, "/")+1:])
			}
			det := map[string]interface{}{"scenario": t.s.name, "func": t.s.fn, "args": labelsOf(t.s.vals), "machines": t.machines,
				"err": res.ErrText, "worker_run_rpcs": res.Runs, "worker_compile_rpcs": res.Compiles, "machines_started": res.Machines, "producer_invocations": res.Deps, "crash": res.Crash}
			outcomes.Add(fmt.Sprintf("b:%s", res.class()))
			switch {
			case res.SetupErr != "":
				// the producer runs (ordinary invocations) of the scenario did not succeed in 3
				// attempts: the scenario cannot be judged; intact transport of ordinary
				// invocations is judged by part (a)
				r.NotExhaustive(fmt.Sprintf("(b) scenario %s on %d machines skipped, set-up failed: %s", t.s.name, t.machines, res.SetupErr))
			case res.Crash != "":
				col.add(1e6+i, fmt.Sprintf(sigBase, "driver-crash"), "Run with an unencodable argument crashes the driver process instead of returning an error", det)
			case res.Hang:
				atomic.AddInt64(&nHangs, 1)
				col.add(1e6+i, fmt.Sprintf(sigBase, "hang"), "Run with an unencodable argument does not return (3 attempts, 60 s each)", det)
			case !res.Failed:
				col.add(1e6+i, fmt.Sprintf(sigBase, "no-error"), "Run with an unencodable argument returns no error", det)
			default:
				atomic.AddInt64(&nFired, 1)
				if res.Runs != 0 {
					col.add(1e6+i, fmt.Sprintf(sigBase, "worker-run-rpcs"), "tasks of an invocation that cannot be encoded were sent to workers", det)
				}
				if res.Compiles > res.Machines*(1+res.Deps) {
					col.add(1e6+i, fmt.Sprintf(sigBase, "compile-retries"), "Worker.Compile was attempted more than once per machine and invocation", det)
				}
			}
		})
		if nSkipped > 0 {
			r.NotExhaustive(fmt.Sprintf("(b) %d cluster runs skipped after two scenarios were found to hang", nSkipped))
		}
		nontrivial += nFired
		cov["b_scenarios"] = len(scens)
		cov["b_cluster_runs"] = nRuns
		cov["b_runs_that_failed_to_encode"] = nFired
	}

	// ---------------- (d) + (e) ----------------
	if want("d") || want("e") {
		type dtask struct {
			sc       dagScenario
			machines int
			round    int
			faultK   int // 0: part (d); >0: part (e), the k-th Worker.Compile fails once
		}
		var dtasks []dtask
		repeat := map[int]int{6: 2, 3: 2, 2: 2, 1: 1} // rounds per cluster size for diamond-like shapes
		if r.Thorough() {
			repeat = map[int]int{6: 6, 3: 6, 2: 8, 1: 1}
		}
		if want("d") {
			for _, sc := range dagScenarios {
				for _, m := range []int{6, 3, 2, 1} {
					n := 1
					if sc.diamondLike() {
						n = repeat[m]
					}
					for round := 0; round < n; round++ {
						dtasks = append(dtasks, dtask{sc, m, round, 0})
					}
				}
			}
		}
		if want("e") {
			maxK := 3
			if r.Thorough() {
				maxK = 6
			}
			for _, sc := range dagScenarios {
				if sc.name != "single" && sc.name != "diamond" && !(r.Thorough() && sc.name == "deep") {
					continue
				}
				for _, m := range []int{1, 2} {
					mk := maxK
					if sc.name != "single" {
						mk = 2 * maxK
						if m == 1 && !r.Thorough() {
							continue
						}
					}
					for k := 1; k <= mk; k++ {
						dtasks = append(dtasks, dtask{sc, m, 0, k})
					}
				}
			}
		}
		var nRuns, nFresh, nFreshMachines, nOK, nSkipped, nFaultRuns, nFaultFired int64
		freshByShape := map[string]int{}
		var fmu sync.Mutex
		ev.Parallel(len(dtasks), 6, func(i int) {
			t := dtasks[i]
			part := "result-dag"
			if t.faultK > 0 {
				part = "compile-neterr"
			}
			var res dagResult
			for attempt := 0; attempt < 3; attempt++ {
				res = runDagChild(t.sc.name, t.machines, t.faultK)
				// a hang or a failed producer run is re-run before anything is concluded
				if res.Crash != "" || (!res.Hang && res.SetupErr == "" && !strings.Contains(res.ErrText, "too many tries: lost on")) {
					break
				}
			}
			atomic.AddInt64(&nRuns, 1)
			atomic.AddInt64(&evaluations, 1)
			if t.faultK > 0 {
				atomic.AddInt64(&nFaultRuns, 1)
				if res.FaultFired {
					atomic.AddInt64(&nFaultFired, 1)
				}
			} else if res.FreshCompiles > 0 {
				atomic.AddInt64(&nFresh, 1)
				atomic.AddInt64(&nFreshMachines, int64(res.FreshCompiles))
				fmu.Lock()
				freshByShape[t.sc.name] += res.FreshCompiles
				fmu.Unlock()
			}
			want := t.sc.expectedRows()
			det := map[string]interface{}{"scenario": t.sc.name, "machines": t.machines, "round": t.round, "fault_on_kth_compile": t.faultK,
				"fault_fired": res.FaultFired, "err": res.ErrText, "machines_started": res.Machines,
				"machines_that_compiled_the_last_invocation": res.JoinCompiles, "of_which_fresh": res.FreshCompiles,
				"rows": res.Rows, "want_rows": want, "crash": res.Crash}
			cell := fmt.Sprintf("%s round %d on %d machines fault=%d", t.sc.name, t.round, t.machines, t.faultK)
			switch {
			case res.Crash != "":
				outcomes.Add(part + ":driver-crash")
				col.add(3e6+i, "C16/"+part+"/driver-crash", "running an invocation on the cluster kills the driver process", det)
			case res.SetupErr != "":
				atomic.AddInt64(&nSkipped, 1)
				r.NotExhaustive(fmt.Sprintf("(d/e) %s skipped, set-up failed: %s", cell, res.SetupErr))
			case res.Hang, strings.Contains(res.ErrText, "too many tries: lost on"):
				// Not concluded from a deadline alone: the same cell without the fault must
				// finish (then the host is not merely slow). Without a fault there is no
				// control, and progress under machine loss is C02's subject: not judged.
				judged := false
				if t.faultK > 0 && res.Hang {
					ctl := runDagChild(t.sc.name, t.machines, 0)
					if !ctl.Hang && !ctl.Failed && ctl.SetupErr == "" && ctl.Crash == "" {
						judged = true
						det["control_without_fault"] = "completed"
						outcomes.Add(part + ":hang")
						col.add(3e6+i, "C16/"+part+"/hang", "after one transient network error on Worker.Compile the Run never returns (3 attempts of 120 s; the same cell without the fault completes)", det)
					}
				}
				if !judged {
					outcomes.Add(part + ":no-progress(not judged)")
					atomic.AddInt64(&nSkipped, 1)
					r.NotExhaustive(fmt.Sprintf("(d/e) %s: no progress in 3 attempts; not judged", cell))
				}
			case res.Failed:
				cls := "other-error"
				if strings.Contains(res.ErrText, "invalid invocation reference") {
					cls = "invalid-invocation-reference"
				}
				outcomes.Add(part + ":run-fails/" + cls)
				col.add(3e6+i, "C16/"+part+"/run-fails/"+cls, "Run of a valid invocation fails on the cluster", det)
			case strings.Join(res.Rows, ",") != strings.Join(want, ","):
				outcomes.Add(part + ":wrong-rows")
				col.add(3e6+i, "C16/"+part+"/wrong-rows", "a valid invocation yields the wrong rows on the cluster", det)
			default:
				outcomes.Add(part + ":ok")
				atomic.AddInt64(&nOK, 1)
			}
		})
		if want("d") && nFresh == 0 {
			r.NotExhaustive("(d) in no run was the last invocation compiled on a machine that had compiled none of its dependencies")
		}
		if want("e") && nFaultFired == 0 {
			r.NotExhaustive("(e) the injected Worker.Compile fault never fired")
		}
		nontrivial += nFresh + nFaultFired
		cov["d_shapes"] = len(dagScenarios)
		cov["d_e_cluster_runs"] = nRuns
		cov["d_e_runs_ok"] = nOK
		cov["d_runs_with_last_invocation_on_fresh_machine"] = nFresh
		cov["d_fresh_machine_compilations_of_last_invocation"] = nFreshMachines
		cov["d_fresh_machine_compilations_by_shape"] = fmt.Sprint(freshByShape)
		cov["d_repeat_rule"] = fmt.Sprintf("diamond-like shapes: rounds per cluster size %v; every fresh machine that compiles the last invocation is one draw of the executor's map-order-dependent traversal (a wrong order has probability 1/2 per draw for a diamond)", repeat)
		cov["e_cells_with_compile_fault"] = nFaultRuns
		cov["e_cells_in_which_the_fault_fired"] = nFaultFired
	}

	// ---------------- (c) ----------------
	if want("c") {
		maxLen := 4
		if r.Thorough() {
			maxLen = 5
		}
		st := checkDiffs(maxLen, func(sig, what, detail string) {
			col.add(2e6, sig, what, map[string]interface{}{"detail": detail})
		})
		evaluations += int64(st.pairs)
		nontrivial += int64(st.nonEmpty)
		cov["c_pairs"] = st.pairs
		cov["c_equal_pairs"] = st.equalPairs
		cov["c_nonempty_diffs"] = st.nonEmpty
		cov["c_pairs_by_number_of_edits"] = fmt.Sprint(st.edits)
		cov["c_exhaustive_within_bound"] = fmt.Sprintf("all ordered pairs of lists of length <= %d over {a,b,c}", maxLen)
	}

	// ---------------- (f) ----------------
	if want("f") {
		maxLen := 5
		if r.Thorough() {
			maxLen = 7
		}
		seqs := freshSequences(maxLen)
		results := make([]freshResult, len(seqs))
		errs := make([]error, len(seqs))
		ev.Parallel(len(seqs), 16, func(i int) { results[i], errs[i] = runFresh(seqs[i]) })
		var queriesAfterReg, failed int
		for i, res := range results {
			if errs[i] != nil {
				failed++
				r.NotExhaustive("(f) " + errs[i].Error())
				continue
			}
			evaluations++
			nontrivial++
			queriesAfterReg += len(res.Lens)
			outcomes.Add(fmt.Sprintf("f:lens=%v", res.Lens))
			for _, v := range res.Viol {
				p := strings.SplitN(v, "|", 2)
				col.add(4000000+i, p[0], p[1], map[string]interface{}{"sequence": "Q " + seqs[i], "answers_len": res.Lens})
			}
		}
		cov["f_sequences"] = len(seqs)
		cov["f_queries_checked"] = queriesAfterReg
		cov["f_rule"] = fmt.Sprintf("every word over {Q = FuncLocations(), R = create one more Func} of length <= %d in which a query follows a registration, after an initial query; one fresh child process per word (the registry is process-global); each answer must list exactly the Funcs registered so far, and its diff against the initial list must be empty exactly when nothing was registered", maxLen)
	}

	var sigs []string
	for s := range col.first {
		sigs = append(sigs, s)
	}
	sort.Slice(sigs, func(i, j int) bool {
		a, b := col.first[sigs[i]], col.first[sigs[j]]
		if a.order != b.order {
			return a.order < b.order
		}
		return a.sig < b.sig
	})
	for _, s := range sigs {
		f := col.first[s]
		f.detail["occurrences"] = col.count[s]
		r.Violate(f.sig, f.what, f.detail)
	}
	cov["evaluations"] = evaluations
	cov["distinct_nontrivial"] = nontrivial
	cov["distinct_outcomes"] = outcomes.Distinct()
	cov["outcomes"] = outcomes.Keys()
	cov["rule"] = "(a) the cross product of per-type argument domains for 21 registered Funcs, including Funcs with repeated parameter types (int, string, float64, []int, map, struct, *struct, interface{}, user interface, user interfaces that *exec.Result implements, bigslice.Slice, *exec.Result; zero values, typed/untyped nil, interfaces holding each registered concrete type, results and nested results), x machine combiners off/on: one evaluation per real decode and per worker view (in-process, child process); (b) one evaluation per cluster run of an unencodable argument list (designed kinds + one representative of every class the codec rejected in (a)) x {1,2} machines; (c) one evaluation per ordered pair of lists; (d) one evaluation per end-to-end cluster run of an invocation whose Result arguments form a DAG (10 shapes x clusters growing to 1,2,3,6 machines x rounds), the last invocation placed on freshly started machines; (e) the same cells with one transient network error on the k-th Worker.Compile RPC; (f) one evaluation per query/registration word (fresh process each). distinct_nontrivial = (f) words + (d) runs in which the last invocation was compiled on a machine that had compiled none of its dependencies + (e) cells in which the injected fault fired + distinct argument lists (by Func and canonical description) that were transported and verified on a worker + cluster runs in which the encode failure actually occurred + pairs with a non-empty diff"
	r.Finish(cov)
}

func indexOf(cases []Case, c Case) int {
	for i := range cases {
		if cases[i].Fn == c.Fn && cases[i].MC == c.MC && cases[i].labels() == c.labels() {
			return i
		}
	}
	return 1 << 30
}

func labelsOf(vs []val) []string {
	var l []string
	for _, v := range vs {
		l = append(l, v.label)
	}
	return l
}

func firstLine(s string) string {
	s = strings.Join(strings.Fields(s), " ")
	if len(s) > 200 {
		s = s[:200]
	}
	return s
}

func checkWorkerReply(cs *caseState, view string, rep Reply, viol func(check, what, detail string)) {
	if rep.Err != "" {
		viol("worker-error/"+view, "the worker cannot decode/compile an invocation the driver encoded and compiled", rep.Err)
		return
	}
	if rep.Dump != cs.dumpA {
		viol("graph/"+view, "the graph compiled from the transported invocation differs from the driver's", firstDiff(cs.dumpA, rep.Dump))
	}
	if len(rep.ArgDesc) != len(cs.desc) {
		viol("arg-count/"+view, "number of arguments differs on the worker", fmt.Sprintf("%d -> %d", len(cs.desc), len(rep.ArgDesc)))
		return
	}
	for k := range cs.desc {
		if rep.ArgDesc[k] != cs.desc[k] {
			viol("worker-arg/"+view+"/param="+registry[cs.c.Fn].In(k).String(), "an argument differs on the worker",
				fmt.Sprintf("arg %d: driver %s, worker %s", k, cs.desc[k], rep.ArgDesc[k]))
		}
	}
}

func firstDiff(a, b string) string {
	la, lb := strings.Split(a, "\n"), strings.Split(b, "\n")
	inA, inB := map[string]bool{}, map[string]bool{}
	for _, l := range la {
		inA[l] = true
	}
	for _, l := range lb {
		inB[l] = true
	}
	var out []string
	for _, l := range la {
		if !inB[l] {
			out = append(out, "- "+l)
		}
	}
	for _, l := range lb {
		if !inA[l] {
			out = append(out, "+ "+l)
		}
	}
	if len(out) > 8 {
		out = out[:8]
	}
	return strings.Join(out, "\n")
}

// ---- (b): one cluster run ---------------------------------------------------------------------

type bResult struct {
	SetupErr string
	Hang     bool
	Crash    string // the child (driver) process died: first panic line
	Failed   bool   // Run returned a non-nil error
	ErrText  string
	Runs     int // Worker.Run RPCs caused by the failing Run
	Compiles int // Worker.Compile RPCs caused by the failing Run
	Deps     int // producer invocations the failing invocation depends on
	Machines int // machines ever started in the cluster
}

func (b bResult) class() string {
	switch {
	case b.Crash != "":
		return "driver-crash"
	case b.Hang:
		return "hang"
	case !b.Failed:
		return "no-error"
	}
	return fmt.Sprintf("error/run-rpcs=%d/compile-rpcs=%d", b.Runs, b.Compiles)
}

// runUnencodableChild runs one scenario in a child process (a driver of its own): an
// unencodable argument may kill the driver process, which must not kill the check.
func runUnencodableChild(fn int, vals []val, machines int) (res bResult) {
	exe, err := os.Executable()
	if err != nil {
		res.SetupErr = err.Error()
		return
	}
	names := make([]string, len(vals))
	for i, v := range vals {
		names[i] = valName(v)
	}
	cmd := osexec.Command(exe, "-c16b", fmt.Sprintf("%d;%d;%s", fn, machines, strings.Join(names, ",")))
	var stdout, stderr strings.Builder
	cmd.Stdout, cmd.Stderr = &stdout, &stderr
	if err := cmd.Start(); err != nil {
		res.SetupErr = err.Error()
		return
	}
	// the child has its own 60 s watchdogs (3 runs at most); this one is a backstop
	timer := time.AfterFunc(5*time.Minute, func() { cmd.Process.Kill() })
	werr := cmd.Wait()
	timer.Stop()
	out := stdout.String()
	if i := strings.Index(out, "C16B-RESULT "); i >= 0 {
		if json.Unmarshal([]byte(strings.TrimSpace(out[i+len("C16B-RESULT "):])), &res) == nil {
			return
		}
	}
	// no result line: the process died
	msg := stderr.String()
	line := ""
	for _, l := range strings.Split(msg, "\n") {
		if strings.HasPrefix(l, "panic:") || strings.HasPrefix(l, "fatal error:") {
			line = l
			break
		}
	}
	if line == "" {
		res.SetupErr = fmt.Sprintf("child exited (%v) without result: %s", werr, firstLine(msg))
		return
	}
	res.Crash = firstLine(line)
	res.Deps = 0
	return
}

func bChildMain(spec string) {
	vsys.Quiet()
	vsys.FastRetries()
	parts := strings.SplitN(spec, ";", 3)
	var fn, machines int
	fmt.Sscanf(parts[0], "%d", &fn)
	fmt.Sscanf(parts[1], "%d", &machines)
	var vals []val
	for _, n := range strings.Split(parts[2], ",") {
		vals = append(vals, valByName(n))
	}
	res := runUnencodable(fn, vals, machines)
	b, _ := json.Marshal(res)
	fmt.Printf("C16B-RESULT %s\n", b)
	os.Exit(0)
}

func runWatch(sess *exec.Session, d time.Duration, fv *bigslice.FuncValue, args ...interface{}) (*exec.Result, error, bool) {
	type out struct {
		r   *exec.Result
		err error
	}
	ch := make(chan out, 1)
	go func() {
		defer func() {
			if e := recover(); e != nil {
				ch <- out{nil, fmt.Errorf("Run panicked: %v", e)}
			}
		}()
		r, err := sess.Run(context.Background(), fv, args...)
		ch <- out{r, err}
	}()
	select {
	case o := <-ch:
		return o.r, o.err, false
	case <-time.After(d):
		return nil, nil, true
	}
}

// rpcCounter counts, through the verifsystem interposer, the Worker.Run and
// Worker.Compile RPCs that concern invocations with index > after (the invocation
// under test; producers have smaller indices and may legitimately be re-run or
// re-compiled when a machine is replaced).
type rpcCounter struct {
	mu             sync.Mutex
	after          uint64
	runs, compiles int
}

type runReq struct {
	Invocation uint64
	Name       exec.TaskName
}

func (c *rpcCounter) hook(call *vsys.Call) error {
	switch call.Method {
	case "Worker.Run":
		var r runReq
		inv := uint64(1 << 62) // undecodable requests are counted
		if gob.NewDecoder(strings.NewReader(string(call.Body))).Decode(&r) == nil {
			inv = r.Invocation
		}
		c.mu.Lock()
		if inv > c.after {
			c.runs++
		}
		c.mu.Unlock()
	case "Worker.Compile":
		inv := uint64(1 << 62)
		if d, err := exec.VerifC16Decode(call.Body); err == nil {
			inv = d.Index
		}
		c.mu.Lock()
		if inv > c.after {
			c.compiles++
		}
		c.mu.Unlock()
	}
	return nil
}

func (c *rpcCounter) get() (int, int) {
	c.mu.Lock()
	defer c.mu.Unlock()
	return c.runs, c.compiles
}

// settle waits until the counters have not moved for 300 ms (at most 10 s).
func settle(c *rpcCounter) (runs, compiles int) {
	deadline := time.Now().Add(10 * time.Second)
	runs, compiles = c.get()
	stable := time.Now()
	for time.Now().Before(deadline) {
		time.Sleep(50 * time.Millisecond)
		r2, c2 := c.get()
		if r2 != runs || c2 != compiles {
			runs, compiles = r2, c2
			stable = time.Now()
			continue
		}
		if time.Since(stable) >= 300*time.Millisecond {
			break
		}
	}
	return
}

// runUnencodable runs registry[fn](vals...) on a fresh cluster of the given size.
// A normal distributed run takes ~0.2 s; the watchdog is 60 s.
func runUnencodable(fn int, vals []val, machines int) (res bResult) {
	sys := vsys.New(2)
	// a few spare machines: on an overloaded host verifsystem's keepalive deadline can
	// expire and a machine be replaced; the compile bound uses the number actually started
	sys.MaxMachines = machines + 3
	ctr := &rpcCounter{after: 1 << 62}
	sys.Hook = ctr.hook
	sess := exec.Start(exec.Bigmachine(calmSys{sys}), exec.Parallelism(2*machines))
	// The session is deliberately not shut down: after a failed Run the executor can
	// still have task goroutines in flight, and (*invDiskCache).getOrCreate panics
	// ("call after close") when one of them arrives after Shutdown.
	var results []*exec.Result
	np := 0
	for _, v := range vals {
		if v.res > np {
			np = v.res
		}
	}
	if np >= 1 {
		r1, err, hang := runWatch(sess, 60*time.Second, registry[0], 1, "a", 1.5)
		if err != nil || hang {
			res.SetupErr = fmt.Sprintf("producer 1: err=%v hang=%v", err, hang)
			return
		}
		results = append(results, r1)
	}
	if np >= 2 {
		r2, err, hang := runWatch(sess, 60*time.Second, registry[6], results[0])
		if err != nil || hang {
			res.SetupErr = fmt.Sprintf("producer 2: err=%v hang=%v", err, hang)
			return
		}
		results = append(results, r2)
	}
	res.Deps = np
	var args []interface{}
	for _, v := range vals {
		if v.res > 0 {
			args = append(args, results[v.res-1])
		} else {
			args = append(args, v.v)
		}
	}
	// invocation indices are process-global and sequential: this (child) process made
	// np producer invocations, so the invocation under test is the only one with index > np
	ctr.mu.Lock()
	ctr.after = uint64(np)
	ctr.mu.Unlock()
	_, err, hang := runWatch(sess, 60*time.Second, registry[fn], args...)
	if hang {
		res.Hang = true
		return
	}
	res.Failed = err != nil
	if err != nil {
		res.ErrText = firstLine(err.Error())
	}
	res.Runs, res.Compiles = settle(ctr)
	res.Machines = len(sys.Hosts())
	return
}
