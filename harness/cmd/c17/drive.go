package main

import (
	"context"
	"errors"
	"fmt"
	"os"
	"reflect"
	"sort"
	"strings"
	"syscall"

	"github.com/grailbio/bigslice/frame"
	"github.com/grailbio/bigslice/sliceio"
	"github.com/grailbio/bigslice/slicetype"
	"verifh/ev"
)

type cmpMode int

const (
	cmpExact      cmpMode = iota // the delivered sequence must equal the reference
	cmpMultiset                  // order not fixed by anything (fold: map iteration)
	cmpKeyOrdered                // merge: keys non-decreasing as in the reference, rows as a multiset
)

// inst is one fresh reader under test together with its inputs.
type inst struct {
	r   sliceio.Reader
	ups []tracker // aligned with tcase.inputs where the reader has inputs
	// fin returns extra end-of-run findings (class, message), e.g. rows seen by a scan callback.
	fin func() [][2]string
}

// tcase is one point of the enumeration apart from the destination sequence.
type tcase struct {
	reader    string // reader under test (signature component)
	desc      string // parameters, scripts
	out       []reflect.Type
	mode      cmpMode
	sortElems bool
	inputs    [][]mrow
	ref       func(inputs [][]mrow) []crow
	mk        func() *inst
	chunkDep  bool // behaviour depends on the package-level vector sizes
	// fewChunks: run with the first two vector sizes only (expensive readers).
	fewChunks bool
	// oneAtATime: with several inputs, vary the script of one input at a time (the
	// others use the simplest script) instead of the full cross product.
	oneAtATime bool
	// fewSeqs: use the reduced set of destination sequences (expensive readers).
	fewSeqs bool
	// custom replaces the generic driver (scanner checks).
	custom func(seq []int) []finding
	// seqs overrides the destination sequences (e.g. a single dummy for cases that do not use them).
	noSeq bool
	// seqs, if set, replaces the destination sequences of the tier for this case.
	seqs [][]int
	// maxReads, if set, replaces the default bound on Reads before "no-termination".
	maxReads int
	// scriptsFn, if set, replaces scriptsFor (inputs too long to enumerate all chunkings).
	scriptsFn func(n int) []script
	// lockstep: with several inputs all inputs use the script with the same index
	// (instead of the cross product).
	lockstep bool
}

type finding struct {
	class string
	msg   string
	trace string
}

type readEv struct {
	l, n int
	err  string
}

func fmtTrace(tr []readEv) string {
	parts := make([]string, len(tr))
	for i, e := range tr {
		parts[i] = fmt.Sprintf("Read(len %d)=(%d,%s)", e.l, e.n, e.err)
	}
	return strings.Join(parts, " ")
}

type delivered struct {
	parent frame.Frame
	snap   string
}

const maxReads = 96

var bg = context.Background()

// safeRead calls Read and converts a panic into a finding.
func safeRead(r sliceio.Reader, dst frame.Frame) (n int, err error, panicked interface{}) {
	defer func() {
		if e := recover(); e != nil {
			panicked = e
		}
	}()
	n, err = r.Read(bg, dst)
	return
}

func errName(err error) string {
	switch {
	case err == nil:
		return "nil"
	case err == sliceio.EOF:
		return "EOF"
	}
	return "err:" + err.Error()
}

// drive reads in.r to EOF with destination lengths seq (cycled) and applies the
// per-call clauses of the property. It returns the rows delivered, the trace and
// the findings.
func drive(tc *tcase, in *inst, seq []int) (rows []crow, trace []readEv, fs []finding) {
	outT := slicetype.New(tc.out...)
	sent := make(crow, len(tc.out))
	for c, t := range tc.out {
		sent[c] = canon(mkVal(t, sentinelOrd), tc.sortElems)
	}
	sentFull := sent.full()
	var kept []delivered
	add := func(class, format string, a ...interface{}) {
		fs = append(fs, finding{class: class, msg: fmt.Sprintf(format, a...)})
	}
	newDst := func(l int) (frame.Frame, frame.Frame) {
		parent := frame.Make(outT, l+2, l+2)
		for i := 0; i < l+2; i++ {
			for c, t := range tc.out {
				parent.Index(c, i).Set(mkVal(t, sentinelOrd))
			}
		}
		return parent, parent.Slice(1, 1+l)
	}
	sawEOF := false
	limit := maxReads
	if tc.maxReads > 0 {
		limit = tc.maxReads
	}
	for i := 0; ; i++ {
		if i >= limit {
			add("no-termination", "no EOF after %d Reads", limit)
			break
		}
		l := seq[i%len(seq)]
		parent, dst := newDst(l)
		n, err, p := safeRead(in.r, dst)
		if p != nil {
			trace = append(trace, readEv{l, -1, fmt.Sprint("panic: ", p)})
			add("panic", "Read panicked: %v", p)
			break
		}
		trace = append(trace, readEv{l, n, errName(err)})
		if n < 0 || n > l {
			add("n-out-of-range", "Read into a frame of length %d returned n=%d", l, n)
			break
		}
		// Rows outside the destination view must never be touched.
		if a, b := frameRow(parent, 0, tc.sortElems).full(), frameRow(parent, l+1, tc.sortElems).full(); a != sentFull || b != sentFull {
			add("writes-outside-destination", "rows adjacent to the destination frame changed: before=%s after=%s (sentinel %s)", a, b, sentFull)
		}
		// Rows dst[n:] must keep the sentinel: "writes only those rows of the destination".
		for j := n; j < l; j++ {
			if got := frameRow(dst, j, tc.sortElems).full(); got != sentFull {
				add("writes-beyond-n", "Read into a frame of length %d returned n=%d but row %d of the frame changed from %s to %s", l, n, j, sentFull, got)
				break
			}
		}
		for j := 0; j < n; j++ {
			rows = append(rows, frameRow(dst, j, tc.sortElems))
		}
		kept = append(kept, delivered{parent, snapshot(parent)})
		if err == sliceio.EOF {
			sawEOF = true
			break
		}
		if err != nil {
			if environmental(err) {
				// cogroup and the spill readers use temporary files: a full disk or an
				// exhausted descriptor table is a failure of the test bed, not a verdict.
				ev.Fatal("%s [%s]: environment error from Read: %v", tc.reader, tc.desc, err)
			}
			add("unexpected-error", "Read returned error %v", err)
			break
		}
	}
	if sawEOF {
		// After EOF further Reads keep returning EOF without rows.
		for k := 0; k < 2; k++ {
			l := seq[k%len(seq)]
			parent, dst := newDst(l)
			n, err, p := safeRead(in.r, dst)
			if p != nil {
				trace = append(trace, readEv{l, -1, fmt.Sprint("panic: ", p)})
				add("read-after-EOF", "Read after EOF panicked: %v", p)
				break
			}
			trace = append(trace, readEv{l, n, errName(err)})
			if n != 0 || err != sliceio.EOF {
				add("read-after-EOF", "Read after EOF returned (%d, %s), want (0, EOF)", n, errName(err))
				break
			}
			kept = append(kept, delivered{parent, snapshot(parent)})
		}
	}
	// Frames delivered earlier must be unchanged at the end.
	for i, d := range kept {
		if now := snapshot(d.parent); now != d.snap {
			add("earlier-frame-altered", "frame passed to Read #%d held %s right after the call and %s at the end", i+1, d.snap, now)
			break
		}
	}
	for i, u := range in.ups {
		if m := u.mutated(); m != "" {
			add("input-mutated", "input %d: %s", i, m)
		}
	}
	return rows, trace, fs
}

// environmental reports errors that come from the file system / process limits.
func environmental(err error) bool {
	var pe *os.PathError
	var se *os.SyscallError
	var en syscall.Errno
	if errors.As(err, &pe) || errors.As(err, &se) || errors.As(err, &en) {
		return true
	}
	msg := err.Error()
	for _, s := range []string{"no space left on device", "too many open files", "permission denied", "read-only file system", "no such file or directory", "input/output error", "cannot allocate memory"} {
		if strings.Contains(msg, s) {
			return true
		}
	}
	return false
}

func fulls(rows []crow) []string {
	out := make([]string, len(rows))
	for i, r := range rows {
		out[i] = r.full()
	}
	return out
}

func sameRows(mode cmpMode, got, want []crow) bool {
	if len(got) != len(want) {
		return false
	}
	g, w := fulls(got), fulls(want)
	switch mode {
	case cmpExact:
	case cmpMultiset:
		sort.Strings(g)
		sort.Strings(w)
	case cmpKeyOrdered:
		for i := range got {
			if got[i][0] != want[i][0] {
				return false
			}
		}
		sort.Strings(g)
		sort.Strings(w)
	}
	for i := range g {
		if g[i] != w[i] {
			return false
		}
	}
	return true
}

// judgeRows compares the delivered rows with the reference and classifies a
// mismatch.
func judgeRows(tc *tcase, in *inst, got []crow) (fs []finding) {
	want := tc.ref(tc.inputs)
	if sameRows(tc.mode, got, want) {
		return nil
	}
	// Is the result exactly what the reference gives when the rows that inputs
	// delivered together with EOF are removed?
	if len(in.ups) == len(tc.inputs) && len(in.ups) > 0 {
		inputs2 := make([][]mrow, len(tc.inputs))
		removed := 0
		for i, u := range in.ups {
			lo, hi := u.eofRange()
			if hi > len(tc.inputs[i]) {
				hi = len(tc.inputs[i])
			}
			inputs2[i] = append(append([]mrow(nil), tc.inputs[i][:lo]...), tc.inputs[i][hi:]...)
			removed += hi - lo
		}
		if removed > 0 && sameRows(tc.mode, got, tc.ref(inputs2)) {
			return []finding{{class: "rows-with-EOF-dropped", msg: fmt.Sprintf(
				"the %d row(s) that an input returned together with EOF were not delivered: got %v, want %v", removed, fulls(got), fulls(want))}}
		}
	}
	class := "rows-differ"
	switch {
	case len(got) < len(want):
		class = "rows-lost"
	case len(got) > len(want):
		class = "rows-extra"
	}
	if len(got) > 24 || len(want) > 24 {
		// Long streams: the first position where the sequences differ (for the
		// unordered modes this is only indicative).
		g, w := fulls(got), fulls(want)
		i := 0
		for i < len(g) && i < len(w) && g[i] == w[i] {
			i++
		}
		at := func(x []string) string {
			if i < len(x) {
				return x[i]
			}
			return "<end>"
		}
		return []finding{{class: class, msg: fmt.Sprintf("delivered %d rows, want %d; first difference at row %d: got %s, want %s", len(g), len(w), i, at(g), at(w))}}
	}
	return []finding{{class: class, msg: fmt.Sprintf("delivered %v, want %v", fulls(got), fulls(want))}}
}

// runCase executes one (case, destination sequence) point on a fresh reader.
func runCase(tc *tcase, seq []int) (fs []finding, trace string, in *inst, nreads int) {
	if tc.custom != nil {
		return tc.custom(seq), "", nil, 0
	}
	in = tc.mk()
	rows, tr, fs := drive(tc, in, seq)
	trace = fmtTrace(tr)
	fatal := false
	for _, f := range fs {
		switch f.class {
		case "panic", "n-out-of-range", "unexpected-error", "no-termination":
			fatal = true
		}
	}
	if !fatal {
		jf := judgeRows(tc, in, rows)
		if len(jf) == 1 && jf[0].class == "rows-with-EOF-dropped" {
			// The dropped rows were written into the destination and then not
			// reported: the same event, reported once.
			kept := fs[:0]
			for _, f := range fs {
				if f.class != "writes-beyond-n" {
					kept = append(kept, f)
				}
			}
			fs = kept
		}
		fs = append(fs, jf...)
	}
	if in.fin != nil {
		for _, x := range in.fin() {
			fs = append(fs, finding{class: x[0], msg: x[1]})
		}
	}
	// One finding per class and run (the first).
	seen := map[string]bool{}
	uniq := fs[:0]
	for _, f := range fs {
		if !seen[f.class] {
			seen[f.class] = true
			uniq = append(uniq, f)
		}
	}
	fs = uniq
	for i := range fs {
		fs[i].trace = trace
	}
	return fs, trace, in, len(tr)
}
