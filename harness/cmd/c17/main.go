// C17 — readers and scanners deliver the same rows however they are read.
//
// Bounded-exhaustive enumeration (DESIGN.md §5 C17) on the real readers: every
// reader the library builds for an operator, spill or merge is driven to EOF with
// every sequence of destination-frame lengths over {1,2,3,5} (cycled), while its
// inputs deliver 5 rows in every chunking of 1..3 rows per read (with zero-row
// reads for operator readers), the last rows arriving either together with EOF or
// before a separate (0, EOF). The oracle is the property statement: 0 <= n <=
// len(dst); only dst[:n] is written (destination frames are views into sentinel-
// filled parents); the concatenation of delivered rows equals a plain-Go
// reference; frames handed in earlier are unchanged at the end; after EOF Reads
// keep returning (0, EOF). Scanner: each row once in order, Err()==nil at the end,
// wrongly shaped destinations are refused with an error.
package main

import (
	"bytes"
	"flag"
	"fmt"
	"hash/fnv"
	"io"
	"os"
	"reflect"
	"runtime"
	"sort"
	"strconv"
	"strings"
	"sync"
	"sync/atomic"
	"time"

	"github.com/grailbio/bigslice"
	"github.com/grailbio/bigslice/exec"
	"github.com/grailbio/bigslice/frame"
	"github.com/grailbio/bigslice/sliceio"
	"github.com/grailbio/bigslice/slicetype"
	"github.com/grailbio/bigslice/sortio"
	"verifh/ev"
)

var (
	sInt      = &schema{"int", []reflect.Type{tInt}}
	sStrInt   = &schema{"string+int", []reflect.Type{tString, tInt}}
	sIntBytes = &schema{"int+bytes", []reflect.Type{tInt, tBytes}}
	sIntPt    = &schema{"int+pt", []reflect.Type{tInt, tPt}}
)

type config struct {
	thorough  bool
	schemas   []*schema
	seqs      [][]int
	fewSeqs   [][]int // for expensive readers
	chunks    []int
	zSingleUp zmode // zero-row reads for operator readers with one input
	zMultiUp  zmode // ... with several inputs
	masks     []int
	expands   [][]int
	budget    time.Duration
}

var quickMask = map[int]bool{0x1f: true, 0: true, 0x15: true, 0x0a: true, 0x01: true, 0x10: true, 0x0e: true}

func mkConfig(thorough bool) *config {
	c := &config{
		thorough:  thorough,
		schemas:   []*schema{sInt, sStrInt, sIntBytes, sIntPt},
		seqs:      dstSeqs(2),
		fewSeqs:   [][]int{{1}, {2}, {3}, {5}, {1, 2}, {2, 1}, {3, 5}, {5, 1}},
		chunks:    []int{3, 128},
		zSingleUp: zSingle,
		zMultiUp:  zSingle,
		masks:     []int{0x1f, 0, 0x15, 0x0a, 0x01, 0x10, 0x0e},
		expands:   [][]int{{1, 1, 1, 1, 1}, {0, 0, 0, 0, 0}, {0, 1, 2, 3, 1}, {3, 3, 3, 3, 3}, {7, 0, 0, 0, 2}, {0, 0, 4, 0, 0}},
		budget:    4 * time.Minute,
	}
	if thorough {
		c.seqs = dstSeqs(3)
		c.fewSeqs = dstSeqs(2)
		c.chunks = []int{3, 128, 1, 2, 5}
		c.zMultiUp = zFull
		c.zSingleUp = zFull
		c.masks = nil
		for m := 0; m < 32; m++ {
			c.masks = append(c.masks, m)
		}
		c.expands = append(c.expands, []int{2, 2, 2, 2, 2}, []int{6, 6, 0, 0, 0}, []int{0, 0, 0, 0, 5}, []int{5, 0, 0, 0, 0},
			[]int{1, 0, 1, 0, 1}, []int{4, 4, 4, 4, 4}, []int{1, 2, 3, 4, 5}, []int{5, 4, 3, 2, 1})
		c.budget = 10 * time.Minute
	}
	return c
}

func setChunk(n int) {
	bigslice.VerifC17SetChunk(n)
	sliceio.VerifC17SetChunk(n)
	sortio.VerifC17SetChunk(n)
	sliceio.SpillBatchSize = n
}

// ---- helpers to build the slices whose readers are under test -------------------

// srcSlice is a typed stand-in for the dependency of an operator slice; its own
// reader is never used (the scripted upstream is passed to Reader as the
// dependency reader).
func srcSlice(s *schema) bigslice.Slice {
	cols := make([]interface{}, len(s.cols))
	for i, t := range s.cols {
		cols[i] = reflect.MakeSlice(reflect.SliceOf(t), 0, 0).Interface()
	}
	return bigslice.Const(1, cols...)
}

// ordOf maps the canonical form of a column-0 value back to its ordinal.
func ordOf(t reflect.Type) map[string]int {
	m := map[string]int{}
	for i := 0; i < 64; i++ {
		m[canon(mkVal(t, i), false)] = i
	}
	return m
}

func sliceTypes(ts []reflect.Type) []reflect.Type {
	out := make([]reflect.Type, len(ts))
	for i, t := range ts {
		out[i] = reflect.SliceOf(t)
	}
	return out
}

func cat(a []reflect.Type, b ...reflect.Type) []reflect.Type {
	return append(append([]reflect.Type(nil), a...), b...)
}

// upCases enumerates the scripts of a reader with one scripted input.
func upCases(tmpl tcase, s *schema, rows []mrow, zm zmode, build func(up sliceio.Reader) sliceio.Reader, ref func(rows []mrow) []crow) []*tcase {
	var out []*tcase
	for _, sc := range scriptsFor(len(rows), zm) {
		sc := sc
		tc := tmpl
		tc.desc = strings.TrimSpace(fmt.Sprintf("%s schema=%s upstream=[%s]", tmpl.desc, s.name, sc))
		tc.inputs = [][]mrow{rows}
		tc.ref = func(in [][]mrow) []crow { return ref(in[0]) }
		tc.mk = func() *inst {
			u := newUpstream(s, rows, sc)
			return &inst{r: build(u), ups: []tracker{u}}
		}
		out = append(out, &tc)
	}
	return out
}

// multiUpCases enumerates the cross product of scripts of a reader with several
// scripted inputs.
func multiUpCases(tmpl tcase, ss []*schema, inputs [][]mrow, zm zmode, build func(ups []sliceio.Reader) sliceio.Reader, ref func(in [][]mrow) []crow) []*tcase {
	var out []*tcase
	per := make([][]script, len(inputs))
	for i := range inputs {
		if tmpl.scriptsFn != nil {
			per[i] = tmpl.scriptsFn(len(inputs[i]))
		} else {
			per[i] = scriptsFor(len(inputs[i]), zm)
		}
	}
	idx := make([]int, len(inputs))
	for {
		scs := make([]script, len(inputs))
		names := make([]string, len(inputs))
		for i := range inputs {
			scs[i] = per[i][idx[i]]
			names[i] = fmt.Sprintf("%d rows [%s]", len(inputs[i]), scs[i])
		}
		tc := tmpl
		tc.desc = strings.TrimSpace(fmt.Sprintf("%s inputs: %s", tmpl.desc, strings.Join(names, " | ")))
		tc.inputs = inputs
		tc.ref = ref
		tc.mk = func() *inst {
			ups := make([]sliceio.Reader, len(inputs))
			trs := make([]tracker, len(inputs))
			for i := range inputs {
				u := newUpstream(ss[i], inputs[i], scs[i])
				ups[i], trs[i] = u, u
			}
			return &inst{r: build(ups), ups: trs}
		}
		varied := 0
		for _, x := range idx {
			if x != 0 {
				varied++
			}
		}
		same := true
		for _, x := range idx {
			if x != idx[0] {
				same = false
			}
		}
		if tmpl.lockstep {
			if same {
				out = append(out, &tc)
			}
		} else if !tmpl.oneAtATime || varied <= 1 {
			out = append(out, &tc)
		}
		// odometer
		k := len(idx) - 1
		for k >= 0 {
			idx[k]++
			if idx[k] < len(per[k]) {
				break
			}
			idx[k] = 0
			k--
		}
		if k < 0 {
			break
		}
	}
	return out
}

func concatRef(ss []*schema) func(in [][]mrow) []crow {
	return func(in [][]mrow) []crow {
		var out []crow
		for i, rows := range in {
			out = append(out, ss[i].canonRows(rows)...)
		}
		return out
	}
}

func rcloser(r sliceio.Reader) sliceio.ReadCloser {
	return sliceio.ReaderWithCloseFunc{Reader: r, CloseFunc: func() error { return nil }}
}

// splits of rows into k contiguous parts (parts may be empty).
func contiguousSplits(rows []mrow, k int) [][][]mrow {
	var out [][][]mrow
	var rec func(start int, cur [][]mrow)
	rec = func(start int, cur [][]mrow) {
		if len(cur) == k-1 {
			out = append(out, append(append([][]mrow(nil), cur...), rows[start:]))
			return
		}
		for end := start; end <= len(rows); end++ {
			rec(end, append(cur, rows[start:end]))
		}
	}
	rec(0, nil)
	return out
}

// assignments of rows (in order) to k inputs.
func assignments(rows []mrow, k int) [][][]mrow {
	var out [][][]mrow
	n := 1
	for range rows {
		n *= k
	}
	for a := 0; a < n; a++ {
		parts := make([][]mrow, k)
		x := a
		for _, r := range rows {
			parts[x%k] = append(parts[x%k], r)
			x /= k
		}
		out = append(out, parts)
	}
	return out
}

// ---- case enumeration ----------------------------------------------------------------

func buildCases(cfg *config) []*tcase {
	var cases []*tcase
	add := func(cs ...*tcase) { cases = append(cases, cs...) }

	for _, s := range cfg.schemas {
		s := s
		src := srcSlice(s)
		rows5 := s.stdRows(5)
		idRef := func(rows []mrow) []crow { return s.canonRows(rows) }
		ords := ordOf(s.cols[0])

		// const: no input; rows split over 1..3 shards; the shards read in order give all rows.
		for n := 0; n <= 5; n++ {
			rows := s.stdRows(n)
			for nshard := 1; nshard <= 3; nshard++ {
				f := buildFrame(s.typ(), s.cols, rows)
				cs := bigslice.Const(nshard, f.Interfaces()...)
				for shard := 0; shard < nshard; shard++ {
					shard := shard
					// Reference for one shard: contiguous blocks, even split, the first shards
					// take the remainder (constShard's documented distribution).
					lo, cnt := evenSplit(n, nshard, shard)
					add(&tcase{
						reader: "const", desc: fmt.Sprintf("schema=%s rows=%d nshard=%d shard=%d", s.name, n, nshard, shard),
						out: s.cols, inputs: nil,
						ref: func([][]mrow) []crow { return s.canonRows(rows[lo : lo+cnt]) },
						mk:  func() *inst { return &inst{r: cs.Reader(shard, nil)} },
					})
				}
			}
			// sliceio.FrameReader
			add(&tcase{
				reader: "sliceio.FrameReader", desc: fmt.Sprintf("schema=%s rows=%d", s.name, n),
				out: s.cols,
				ref: func([][]mrow) []crow { return s.canonRows(rows) },
				mk: func() *inst {
					return &inst{r: sliceio.FrameReader(buildFrame(s.typ(), s.cols, rows))}
				},
			})
		}

		// readerfunc: the user function plays the script (it may return no rows without EOF).
		for _, sc := range scriptsFor(5, cfg.zSingleUp) {
			sc := sc
			rf := bigslice.ReaderFunc(1, readerFuncFor(s, rows5, sc))
			add(&tcase{
				reader: "readerfunc", desc: fmt.Sprintf("schema=%s function returns [%s]", s.name, sc),
				out: s.cols,
				ref: func([][]mrow) []crow { return s.canonRows(rows5) },
				mk:  func() *inst { return &inst{r: rf.Reader(0, nil)} },
			})
		}

		// map: (c0, ...) -> ("m:"+c0, c0, ...)
		mapped := bigslice.Map(src, mapFn(s))
		mapRef := func(rows []mrow) []crow {
			var out []crow
			for _, r := range s.canonRows(rows) {
				out = append(out, append(crow{strconv.Quote("m:" + r[0])}, r...))
			}
			return out
		}
		mapOut := cat([]reflect.Type{tString}, s.cols...)
		add(upCases(tcase{reader: "map", out: mapOut}, s, rows5, cfg.zSingleUp,
			func(up sliceio.Reader) sliceio.Reader { return mapped.Reader(0, []sliceio.Reader{up}) }, mapRef)...)
		// prefixed: has no reader of its own; Reader is the wrapped slice's.
		if s == sStrInt {
			pref := bigslice.Prefixed(mapped, 2)
			add(upCases(tcase{reader: "prefixed(map)", out: mapOut}, s, rows5, cfg.zSingleUp,
				func(up sliceio.Reader) sliceio.Reader { return pref.Reader(0, []sliceio.Reader{up}) }, mapRef)...)
		}

		// filter: keep the rows whose index is in mask.
		// Operator parameters (filter masks, flatmap expansions, head counts) are
		// crossed with two schemas; the other schemas get representative parameters.
		paramSchema := s == sInt || s == sIntPt
		for _, mask := range cfg.masks {
			mask := mask
			if !(s == sInt || (s == sIntPt && quickMask[mask]) || mask == 0x15) {
				continue
			}
			fl := bigslice.Filter(src, predFn(s, ords, mask))
			add(upCases(tcase{reader: "filter", desc: fmt.Sprintf("keep-mask=%05b", mask), out: s.cols}, s, rows5, cfg.zSingleUp,
				func(up sliceio.Reader) sliceio.Reader { return fl.Reader(0, []sliceio.Reader{up}) },
				func(rows []mrow) []crow {
					var out []crow
					for _, r := range rows {
						if mask>>uint(r[0])&1 == 1 {
							out = append(out, s.canonRow(r))
						}
					}
					return out
				})...)
		}

		// flatmap: row i expands to expand[i] rows (j, c0, ...), j = 0..expand[i]-1.
		for xi, ex := range cfg.expands {
			ex := ex
			if !paramSchema && xi != 2 && xi != 4 {
				continue
			}
			fm := bigslice.Flatmap(src, flatmapFn(s, ords, ex))
			add(upCases(tcase{reader: "flatmap", desc: fmt.Sprintf("expand=%v", ex), out: cat([]reflect.Type{tInt}, s.cols...)}, s, rows5, cfg.zSingleUp,
				func(up sliceio.Reader) sliceio.Reader { return fm.Reader(0, []sliceio.Reader{up}) },
				func(rows []mrow) []crow {
					var out []crow
					for _, r := range rows {
						for j := 0; j < ex[r[0]]; j++ {
							out = append(out, append(crow{strconv.Itoa(j)}, s.canonRow(r)...))
						}
					}
					return out
				})...)
		}

		// head
		for k := 0; k <= 6; k++ {
			k := k
			if !paramSchema && k != 3 {
				continue
			}
			hd := bigslice.Head(src, k)
			add(upCases(tcase{reader: "head", desc: fmt.Sprintf("n=%d", k), out: s.cols}, s, rows5, cfg.zSingleUp,
				func(up sliceio.Reader) sliceio.Reader { return hd.Reader(0, []sliceio.Reader{up}) },
				func(rows []mrow) []crow {
					if len(rows) > k {
						rows = rows[:k]
					}
					return s.canonRows(rows)
				})...)
		}

		// writerfunc
		wf := bigslice.WriterFunc(src, writeFn(s))
		add(upCases(tcase{reader: "writerfunc", out: s.cols}, s, rows5, cfg.zSingleUp,
			func(up sliceio.Reader) sliceio.Reader { return wf.Reader(0, []sliceio.Reader{up}) }, idRef)...)

		// scan: the operator's reader runs the callback over a Scanner on the input and
		// delivers no rows itself; the rows the callback sees are the output.
		for _, sc := range scriptsFor(5, cfg.zSingleUp) {
			sc := sc
			add(&tcase{
				reader: "scan", desc: fmt.Sprintf("schema=%s upstream=[%s]", s.name, sc), chunkDep: true, noSeq: true,
				custom: func([]int) []finding { return runScanOp(s, src, rows5, sc) },
			})
		}

		// Pass-through library readers (no zero-row input reads: the statement
		// extends those to operator readers only).
		add(upCases(tcase{reader: "sliceio.ClosingReader", out: s.cols}, s, rows5, zNone,
			func(up sliceio.Reader) sliceio.Reader { return sliceio.NewClosingReader(rcloser(up)) }, idRef)...)
		add(upCases(tcase{reader: "sliceio.ReaderWithCloseFunc", out: s.cols}, s, rows5, zNone,
			func(up sliceio.Reader) sliceio.Reader { return rcloser(up) }, idRef)...)

		// sliceio.MultiReader and exec's multiReader over 1..3 scripted inputs holding
		// the 5 rows in contiguous parts.
		for k := 1; k <= 3; k++ {
			if k == 3 && !cfg.thorough && s != sInt {
				continue
			}
			ss := make([]*schema, k)
			for i := range ss {
				ss[i] = s
			}
			for _, parts := range contiguousSplits(rows5, k) {
				add(multiUpCases(tcase{reader: "sliceio.MultiReader", desc: "schema=" + s.name, out: s.cols}, ss, parts, zNone,
					func(ups []sliceio.Reader) sliceio.Reader {
						rcs := make([]sliceio.ReadCloser, len(ups))
						for i := range ups {
							rcs[i] = rcloser(ups[i])
						}
						return sliceio.MultiReader(rcs...)
					}, concatRef(ss))...)
				add(multiUpCases(tcase{reader: "exec.multiReader", desc: "schema=" + s.name, out: s.cols}, ss, parts, zNone,
					func(ups []sliceio.Reader) sliceio.Reader { return exec.VerifC17MultiReader(ups) }, concatRef(ss))...)
			}
		}
		// The same two over real library readers: FrameReader (returns its last rows
		// together with EOF) and task-buffer readers.
		for _, parts := range contiguousSplits(rows5, 2) {
			parts := parts
			ss := []*schema{s, s}
			mkFrameReaders := func() ([]sliceio.Reader, []tracker) {
				rs := make([]sliceio.Reader, len(parts))
				ts := make([]tracker, len(parts))
				for i := range parts {
					t := &tap{r: sliceio.FrameReader(buildFrame(s.typ(), s.cols, parts[i]))}
					rs[i], ts[i] = t, t
				}
				return rs, ts
			}
			mkBufReaders := func() ([]sliceio.Reader, []tracker) {
				rs := make([]sliceio.Reader, len(parts))
				ts := make([]tracker, len(parts))
				for i := range parts {
					var frames []frame.Frame
					if len(parts[i]) > 0 {
						frames = []frame.Frame{buildFrame(s.typ(), s.cols, parts[i])}
					}
					t := &tap{r: exec.VerifC17TaskBufferReader([][]frame.Frame{frames}, 0)}
					rs[i], ts[i] = t, t
				}
				return rs, ts
			}
			desc := fmt.Sprintf("schema=%s inputs: real readers over %d | %d rows", s.name, len(parts[0]), len(parts[1]))
			add(&tcase{reader: "sliceio.MultiReader", desc: desc + " (sliceio.FrameReader)", out: s.cols, inputs: parts, ref: concatRef(ss),
				mk: func() *inst {
					rs, ts := mkFrameReaders()
					return &inst{r: sliceio.MultiReader(rcloser(rs[0]), rcloser(rs[1])), ups: ts}
				}})
			add(&tcase{reader: "exec.multiReader", desc: desc + " (sliceio.FrameReader)", out: s.cols, inputs: parts, ref: concatRef(ss),
				mk: func() *inst {
					rs, ts := mkFrameReaders()
					return &inst{r: exec.VerifC17MultiReader(rs), ups: ts}
				}})
			add(&tcase{reader: "sliceio.MultiReader", desc: desc + " (exec.taskBufferReader)", out: s.cols, inputs: parts, ref: concatRef(ss),
				mk: func() *inst {
					rs, ts := mkBufReaders()
					return &inst{r: sliceio.MultiReader(rcloser(rs[0]), rcloser(rs[1])), ups: ts}
				}})
			add(&tcase{reader: "exec.multiReader", desc: desc + " (exec.taskBufferReader)", out: s.cols, inputs: parts, ref: concatRef(ss),
				mk: func() *inst {
					rs, ts := mkBufReaders()
					return &inst{r: exec.VerifC17MultiReader(rs), ups: ts}
				}})
		}

		// exec.taskBufferReader: the 5 rows stored as frames of every chunking, in
		// partition p of 1 or 2 partitions (the other partition holds other rows).
		for _, comp := range compositions(5, 3) {
			comp := comp
			for nparts := 1; nparts <= 2; nparts++ {
				for p := 0; p < nparts; p++ {
					nparts, p := nparts, p
					add(&tcase{
						reader: "exec.taskBufferReader", desc: fmt.Sprintf("schema=%s stored frames=%v partition=%d/%d", s.name, comp, p, nparts),
						out: s.cols, ref: func([][]mrow) []crow { return s.canonRows(rows5) },
						mk: func() *inst {
							parts := make([][]frame.Frame, nparts)
							for q := range parts {
								if q != p {
									other := s.stdRows(8)[5:]
									parts[q] = []frame.Frame{buildFrame(s.typ(), s.cols, other)}
									continue
								}
								off := 0
								for _, c := range comp {
									parts[q] = append(parts[q], buildFrame(s.typ(), s.cols, rows5[off:off+c]))
									off += c
								}
							}
							return &inst{r: exec.VerifC17TaskBufferReader(parts, p)}
						},
					})
				}
			}
		}
		add(&tcase{reader: "exec.taskBufferReader", desc: "schema=" + s.name + " empty partition", out: s.cols,
			ref: func([][]mrow) []crow { return nil },
			mk:  func() *inst { return &inst{r: exec.VerifC17TaskBufferReader([][]frame.Frame{nil}, 0)} }})
		add(&tcase{reader: "exec.taskBufferReader", desc: "schema=" + s.name + " empty buffer", out: s.cols,
			ref: func([][]mrow) []crow { return nil },
			mk:  func() *inst { return &inst{r: exec.VerifC17TaskBufferReader(nil, 0)} }})

		// spill readers: the rows spilled to a file in batches of SpillBatchSize (the
		// vector size of the phase), read back through Spiller.ClosingReaders.
		if s == sIntBytes || s == sStrInt || cfg.thorough {
			for _, n := range []int{5, 4, 1} {
				rows := s.stdRows(n)
				add(&tcase{
					reader: "sliceio.Spiller.ClosingReaders", desc: fmt.Sprintf("schema=%s rows=%d", s.name, n),
					out: s.cols, chunkDep: true, ref: func([][]mrow) []crow { return s.canonRows(rows) },
					mk: func() *inst {
						sp, err := sliceio.NewSpiller("c17")
						if err != nil {
							ev.Fatal("spiller: %v", err)
						}
						defer sp.Cleanup()
						if _, err := sp.Spill(buildFrame(s.typ(), s.cols, rows)); err != nil {
							ev.Fatal("spill: %v", err)
						}
						rs, err := sp.ClosingReaders()
						if err != nil || len(rs) != 1 {
							ev.Fatal("spill readers: %v (%d readers)", err, len(rs))
						}
						return &inst{r: rs[0]}
					},
				})
			}
		}

		// decoding reader: an encoded stream holding the 5 rows in batches of every
		// chunking; stream given as an io.ByteReader and as a plain io.Reader.
		for _, n := range []int{5, 0} {
			rows := s.stdRows(n)
			for _, comp := range compositions(n, 3) {
				comp := comp
				stream := encodeStream(s, rows, comp)
				for _, plain := range []bool{false, true} {
					plain := plain
					add(&tcase{
						reader: "sliceio.DecodingReader", desc: fmt.Sprintf("schema=%s batches=%v plainReader=%v", s.name, comp, plain),
						out: s.cols, ref: func([][]mrow) []crow { return s.canonRows(rows) },
						mk: func() *inst {
							var rd io.Reader = bytes.NewReader(stream)
							if plain {
								rd = struct{ io.Reader }{rd}
							}
							return &inst{r: sliceio.NewDecodingReader(rd)}
						},
					})
				}
			}
		}
	}

	cases = append(cases, keyedCases(cfg)...)
	cases = append(cases, scannerCases(cfg)...)
	// Readers with few cases first, so that a time budget cuts into the largest
	// spaces only; the order inside a reader (simplest first) is kept.
	perReader := map[string]int{}
	for _, tc := range cases {
		perReader[tc.reader]++
	}
	sort.SliceStable(cases, func(i, j int) bool {
		a, b := cases[i].reader, cases[j].reader
		if perReader[a] != perReader[b] {
			return perReader[a] < perReader[b]
		}
		return a < b
	})
	return cases
}

func evenSplit(n, nshard, shard int) (lo, cnt int) {
	q, rem := n/nshard, n%nshard
	lo, cnt = q*shard, q
	if shard < rem {
		lo += shard
		cnt++
	} else {
		lo += rem
	}
	return
}

// keyedCases: fold, reduce, cogroup, merge.
func keyedCases(cfg *config) []*tcase {
	var cases []*tcase
	add := func(cs ...*tcase) { cases = append(cases, cs...) }
	keyTypes := []reflect.Type{tInt, tString, tInt64}
	sum := func(a, b int) int { return a + b }

	for _, kt := range keyTypes {
		kt := kt
		s := &schema{kt.String() + "+int", []reflect.Type{kt, tInt}}
		src := srcSlice(s)
		kv := func(r mrow) (string, int) { return canon(mkVal(kt, r[0]), false), int(mkVal(tInt, r[1]).Int()) }

		// fold: sum of the value column per key; output order is the accumulator's map order.
		fold := bigslice.Fold(src, sum)
		for _, keys := range [][]int{{1, 2, 1, 3, 2}, {4, 4, 4, 4, 4}, {0, 1, 2, 3, 4}} {
			rows := s.keyedRows(keys, 10)
			add(upCases(tcase{reader: "fold", desc: fmt.Sprintf("keys=%v", keys), out: s.cols, mode: cmpMultiset, chunkDep: true}, s, rows, cfg.zSingleUp,
				func(up sliceio.Reader) sliceio.Reader { return fold.Reader(0, []sliceio.Reader{up}) },
				func(rows []mrow) []crow {
					sums := map[string]int{}
					var order []string
					for _, r := range rows {
						k, v := kv(r)
						if _, ok := sums[k]; !ok {
							order = append(order, k)
						}
						sums[k] += v
					}
					var out []crow
					for _, k := range order {
						out = append(out, crow{k, strconv.Itoa(sums[k])})
					}
					return out
				})...)
		}

		// reduce (sortio.Reduce through reduceSlice.Reader): inputs sorted by key with
		// unique keys per input; equal keys across inputs are summed.
		if kt != tInt64 || cfg.thorough {
			red := bigslice.Reduce(src, sum)
			redRef := func(in [][]mrow) []crow {
				sums := map[int]int{}
				for _, rows := range in {
					for _, r := range rows {
						_, v := kv(r)
						sums[r[0]] += v
					}
				}
				var ks []int
				for k := range sums {
					ks = append(ks, k)
				}
				sort.Ints(ks)
				var out []crow
				for _, k := range ks {
					out = append(out, crow{canon(mkVal(kt, k), false), strconv.Itoa(sums[k])})
				}
				return out
			}
			var layouts [][][]int
			for a := 0; a <= 5; a++ {
				k0 := seqInts(0, a)
				for _, start := range []int{0, a - 1, a, a + 1} {
					if start < 0 {
						continue
					}
					layouts = append(layouts, [][]int{k0, seqInts(start, 5-a)})
				}
			}
			layouts = append(layouts, [][]int{{0, 2}, {0, 1}, {0}}, [][]int{{0, 3, 4}, {}, {1, 2}})
			seen := map[string]bool{}
			for _, lay := range layouts {
				if key := fmt.Sprint(lay); seen[key] {
					continue
				} else {
					seen[key] = true
				}
				if len(lay) == 3 && !cfg.thorough && kt != tInt {
					continue
				}
				inputs := make([][]mrow, len(lay))
				ss := make([]*schema, len(lay))
				for i, keys := range lay {
					inputs[i] = s.keyedRows(keys, 10*(i+1))
					ss[i] = s
				}
				add(multiUpCases(tcase{reader: "reduce(sortio.Reduce)", desc: fmt.Sprintf("schema=%s keys=%v", s.name, lay), out: s.cols, chunkDep: true}, ss, inputs, zNone,
					func(ups []sliceio.Reader) sliceio.Reader { return red.Reader(0, ups) }, redRef)...)
			}
		}
	}

	// merge reader: sorted rows assigned to 1..3 sorted inputs in every way; equal
	// keys may come out in any order.
	for _, s := range []*schema{sStrInt, sIntBytes, sIntPt} {
		s := s
		if !cfg.thorough && s == sIntPt {
			continue
		}
		for ki, keys := range [][]int{{0, 1, 2, 3, 4}, {0, 1, 1, 2, 2}} {
			if !cfg.thorough && ((s == sStrInt) != (ki == 0)) {
				continue // quick: distinct keys with string keys, ties with int keys
			}
			rows := s.keyedRows(keys, 10)
			for k := 1; k <= 3; k++ {
				if k == 3 && (!cfg.thorough || s != sStrInt) {
					continue
				}
				ss := make([]*schema, k)
				for i := range ss {
					ss[i] = s
				}
				for _, parts := range assignments(rows, k) {
					add(multiUpCases(tcase{reader: "sortio.MergeReader", desc: fmt.Sprintf("schema=%s keys=%v", s.name, keys), out: s.cols, mode: cmpKeyOrdered, chunkDep: true, oneAtATime: k == 3}, ss, parts, zNone,
						func(ups []sliceio.Reader) sliceio.Reader {
							r, err := sortio.NewMergeReader(bg, s.typ(), ups)
							if err != nil {
								ev.Fatal("NewMergeReader: %v", err)
							}
							return r
						},
						func(in [][]mrow) []crow {
							var all []mrow
							for _, p := range in {
								all = append(all, p...)
							}
							sort.SliceStable(all, func(i, j int) bool { return all[i][0] < all[j][0] })
							return s.canonRows(all)
						})...)
				}
			}
		}
	}

	// cogroup: one to three inputs (unsorted); output (key, []values of input 0, []values of
	// input 1, ...) ordered by key; the order inside a group is not fixed by anything and is
	// normalised.
	type cg struct {
		k reflect.Type
		v []reflect.Type
	}
	for ci, c := range []cg{{tInt, []reflect.Type{tString, tInt, tInt64}}, {tString, []reflect.Type{tBytes, tPt, tInt}}} {
		c := c
		ss := make([]*schema, len(c.v))
		for i, v := range c.v {
			ss[i] = &schema{c.k.String() + "+" + v.String(), []reflect.Type{c.k, v}}
		}
		cogRef := func(in [][]mrow) []crow {
			type grp struct{ vals [][]string }
			groups := map[int]*grp{}
			for i, rows := range in {
				for _, r := range rows {
					g := groups[r[0]]
					if g == nil {
						g = &grp{vals: make([][]string, len(in))}
						groups[r[0]] = g
					}
					g.vals[i] = append(g.vals[i], canon(mkVal(ss[i].cols[1], r[1]), false))
				}
			}
			var ks []int
			for k := range groups {
				ks = append(ks, k)
			}
			sort.Ints(ks)
			var out []crow
			for _, k := range ks {
				row := crow{canon(mkVal(c.k, k), false)}
				for i := range in {
					vs := groups[k].vals[i]
					sort.Strings(vs)
					row = append(row, "["+strings.Join(vs, " ")+"]")
				}
				out = append(out, row)
			}
			return out
		}
		mkCog := func(ndep int) (bigslice.Slice, []reflect.Type) {
			out := []reflect.Type{c.k}
			srcs := make([]bigslice.Slice, ndep)
			for i := 0; i < ndep; i++ {
				srcs[i] = srcSlice(ss[i])
				out = append(out, reflect.SliceOf(c.v[i]))
			}
			return bigslice.Cogroup(srcs...), out
		}
		layouts := [][][]int{{{2, 1, 2}, {3, 2}}, {{1, 0}, {0, 1, 4}}, {{}, {3, 1, 2, 1, 3}}, {{0, 0, 0, 1, 2}, {}}, {{4, 3, 2, 1, 0}}, {{1, 0}, {2, 1}, {1}}}
		if cfg.thorough {
			layouts = append(layouts, [][]int{{0, 1, 2, 3}, {4}}, [][]int{{5}, {5, 5, 5, 5}}, [][]int{{2, 2, 1, 1, 0}}, [][]int{{0, 1}, {}, {1, 1, 2}})
		}
		for _, lay := range layouts {
			inputs := make([][]mrow, len(lay))
			for i, keys := range lay {
				inputs[i] = ss[i].keyedRows(keys, 10*(i+1))
			}
			cog, out := mkCog(len(lay))
			// cogroup sorts each input through spill files (about 30 file-system
			// operations per run): its inputs see the scripts only through ReadFull, so
			// the script space is thinned (one input varied at a time, fewer zero-row
			// placements), the destination sequences matter and are kept.
			zm := zSingle
			if !cfg.thorough {
				zm = zNone
			}
			add(multiUpCases(tcase{reader: "cogroup", desc: fmt.Sprintf("key=%s keys=%v", c.k, lay), out: out, sortElems: true, chunkDep: true, fewChunks: true, oneAtATime: true, fewSeqs: true}, ss[:len(lay)], inputs, zm,
				func(ups []sliceio.Reader) sliceio.Reader { return cog.Reader(0, ups) }, cogRef)...)
		}

		// cogroup over inputs longer than its per-dependency merge buffer (128 rows, a
		// constant inside cogroupReader.Read): with 300 rows a dependency's buffer is
		// refilled twice while groups gathered from it are being assembled, are in the
		// destination of the current Read, or are held by the caller from earlier Reads
		// (the Reader contract: "Read should never reuse any allocated memory in the
		// frame" — the caller may keep what it was given, as exec.bufferOutput does).
		// Unique keys (one row per key and dependency: joins), repeated keys (groups of 2
		// and 3 rows, which straddle the 128-row boundaries), dependencies of different
		// lengths (refilled twice / once / never). Inputs arrive unsorted.
		const big = 300
		perm := func(n, mul int, key func(i int) int) []int { // keys in a scrambled but fixed order
			out := make([]int, n)
			for i := range out {
				out[i] = key(i * mul % n)
			}
			return out
		}
		uniq := func(i int) int { return i }
		pairs := func(i int) int { return i / 2 }
		triples := func(i int) int { return i / 3 }
		type bigLay struct {
			name string
			keys [][]int
		}
		bigLays := []bigLay{
			{"1 dep, 300 unique keys", [][]int{perm(big, 7, uniq)}},
			{"1 dep, 100 keys x 3 rows", [][]int{perm(big, 7, triples)}},
			{"2 deps, 300 unique keys each (join)", [][]int{perm(big, 7, uniq), perm(big, 11, uniq)}},
			{"2 deps, 300 unique keys | 100 keys x 3 rows", [][]int{perm(big, 7, uniq), perm(big, 11, triples)}},
			{"2 deps, 150 keys x 2 rows | 5 rows", [][]int{perm(big, 7, pairs), {0, 64, 149, 149, 120}}},
			{"3 deps, 300 unique keys each", [][]int{perm(big, 7, uniq), perm(big, 11, uniq), perm(big, 13, uniq)}},
			{"3 deps, 150 keys x 2 rows | 140 unique keys | 300 unique keys 200..499", [][]int{perm(big, 7, pairs), perm(140, 3, uniq), perm(big, 11, func(i int) int { return 200 + i })}},
		}
		if ci == 1 && !cfg.thorough {
			bigLays = []bigLay{bigLays[2], bigLays[3], bigLays[6]}
		}
		bigSeqs := append(append([][]int(nil), cfg.seqs...), []int{128}, []int{100}, []int{300}, []int{1000}, []int{7, 128})
		bigScripts := func(n int) []script {
			if n == 0 {
				return []script{{}, {}}
			}
			return []script{{reads: []int{n}}, {reads: []int{n}, eofWithLast: true}}
		}
		for _, bl := range bigLays {
			inputs := make([][]mrow, len(bl.keys))
			for i, keys := range bl.keys {
				inputs[i] = ss[i].keyedRows(keys, 10*(i+1))
			}
			cog, out := mkCog(len(bl.keys))
			add(multiUpCases(tcase{reader: "cogroup", desc: fmt.Sprintf("large inputs: key=%s %s", c.k, bl.name), out: out, sortElems: true,
				chunkDep: true, fewChunks: true, lockstep: true, seqs: bigSeqs, maxReads: 3*big + 64, scriptsFn: bigScripts}, ss[:len(bl.keys)], inputs, zNone,
				func(ups []sliceio.Reader) sliceio.Reader { return cog.Reader(0, ups) }, cogRef)...)
		}
	}
	return cases
}

func seqInts(start, n int) []int {
	out := make([]int, n)
	for i := range out {
		out[i] = start + i
	}
	return out
}

// ---- user functions built by reflection (one per schema) -------------------------------

func mapFn(s *schema) interface{} {
	ft := reflect.FuncOf(s.cols, cat([]reflect.Type{tString}, s.cols...), false)
	return reflect.MakeFunc(ft, func(args []reflect.Value) []reflect.Value {
		return append([]reflect.Value{reflect.ValueOf("m:" + canon(args[0], false))}, args...)
	}).Interface()
}

func predFn(s *schema, ords map[string]int, mask int) interface{} {
	ft := reflect.FuncOf(s.cols, []reflect.Type{tBool}, false)
	return reflect.MakeFunc(ft, func(args []reflect.Value) []reflect.Value {
		i, ok := ords[canon(args[0], false)]
		if !ok {
			panic("predicate called with a value that is not an input row: " + canon(args[0], false))
		}
		return []reflect.Value{reflect.ValueOf(mask>>uint(i)&1 == 1)}
	}).Interface()
}

func flatmapFn(s *schema, ords map[string]int, expand []int) interface{} {
	ft := reflect.FuncOf(s.cols, sliceTypes(cat([]reflect.Type{tInt}, s.cols...)), false)
	return reflect.MakeFunc(ft, func(args []reflect.Value) []reflect.Value {
		i, ok := ords[canon(args[0], false)]
		if !ok {
			panic("flatmap function called with a value that is not an input row: " + canon(args[0], false))
		}
		e := expand[i]
		out := make([]reflect.Value, 1+len(args))
		idx := make([]int, e)
		for j := range idx {
			idx[j] = j
		}
		out[0] = reflect.ValueOf(idx)
		for c, a := range args {
			col := reflect.MakeSlice(reflect.SliceOf(s.cols[c]), e, e)
			for j := 0; j < e; j++ {
				col.Index(j).Set(a)
			}
			out[1+c] = col
		}
		return out
	}).Interface()
}

func writeFn(s *schema) interface{} {
	in := cat([]reflect.Type{tInt, tInt, tError}, sliceTypes(s.cols)...)
	ft := reflect.FuncOf(in, []reflect.Type{tError}, false)
	return reflect.MakeFunc(ft, func(args []reflect.Value) []reflect.Value {
		return []reflect.Value{reflect.Zero(tError)}
	}).Interface()
}

// rfState is the per-shard state the ReaderFunc reader allocates for the user function.
type rfState struct {
	ri, taken, pos int
}

func readerFuncFor(s *schema, rows []mrow, sc script) interface{} {
	in := cat([]reflect.Type{tInt, reflect.TypeOf(&rfState{})}, sliceTypes(s.cols)...)
	ft := reflect.FuncOf(in, []reflect.Type{tInt, tError}, false)
	ret := func(n int, err error) []reflect.Value {
		ev := reflect.Zero(tError)
		if err != nil {
			ev = reflect.ValueOf(&err).Elem()
		}
		return []reflect.Value{reflect.ValueOf(n), ev}
	}
	return reflect.MakeFunc(ft, func(args []reflect.Value) []reflect.Value {
		st := args[1].Interface().(*rfState)
		if st.ri == len(sc.reads) {
			return ret(0, sliceio.EOF)
		}
		n := sc.reads[st.ri] - st.taken
		if l := args[2].Len(); l < n {
			n = l
		}
		for j := 0; j < n; j++ {
			for c, t := range s.cols {
				args[2+c].Index(j).Set(mkVal(t, rows[st.pos+j][c]))
			}
		}
		st.pos += n
		st.taken += n
		if st.taken == sc.reads[st.ri] {
			st.ri++
			st.taken = 0
		}
		if st.ri == len(sc.reads) && sc.eofWithLast && n > 0 {
			return ret(n, sliceio.EOF)
		}
		return ret(n, nil)
	}).Interface()
}

func encodeStream(s *schema, rows []mrow, batches []int) []byte {
	var b bytes.Buffer
	enc := sliceio.NewEncodingWriter(&b)
	off := 0
	for _, n := range batches {
		if err := enc.Write(bg, buildFrame(s.typ(), s.cols, rows[off:off+n])); err != nil {
			ev.Fatal("encode: %v", err)
		}
		off += n
	}
	return b.Bytes()
}

// runScanOp: bigslice.Scan's reader.
func runScanOp(s *schema, src bigslice.Slice, rows []mrow, sc script) (fs []finding) {
	u := newUpstream(s, rows, sc)
	var got []crow
	var inner []finding
	scan := bigslice.Scan(src, func(shard int, scanner *sliceio.Scanner) error {
		g, f := scanAll(s, scanner)
		got = append(got, g...)
		inner = append(inner, f...)
		return nil
	})
	rd := scan.Reader(0, []sliceio.Reader{u})
	n, err, p := safeRead(rd, frame.Empty)
	switch {
	case p != nil:
		return []finding{{class: "panic", msg: fmt.Sprintf("Read panicked: %v", p)}}
	case n != 0 || err != sliceio.EOF:
		return []finding{{class: "unexpected-result", msg: fmt.Sprintf("Read returned (%d, %s), want (0, EOF)", n, errName(err))}}
	}
	fs = append(fs, inner...)
	if len(fs) == 0 {
		fs = judgeScan(got, s.canonRows(rows))
	}
	if m := u.mutated(); m != "" {
		fs = append(fs, finding{class: "input-mutated", msg: m})
	}
	return fs
}

// ---- bookkeeping --------------------------------------------------------------------------

type readerStats struct {
	runs, reads, eofRowRuns, zeroReadRuns, ns int64
}

type hashSet struct {
	mu [64]sync.Mutex
	m  [64]map[uint64]struct{}
}

func newHashSet() *hashSet {
	h := &hashSet{}
	for i := range h.m {
		h.m[i] = map[uint64]struct{}{}
	}
	return h
}
func (h *hashSet) add(s string) {
	f := fnv.New64a()
	f.Write([]byte(s))
	x := f.Sum64()
	i := x % 64
	h.mu[i].Lock()
	h.m[i][x] = struct{}{}
	h.mu[i].Unlock()
}
func (h *hashSet) size() int {
	n := 0
	for i := range h.m {
		h.mu[i].Lock()
		n += len(h.m[i])
		h.mu[i].Unlock()
	}
	return n
}

type vrec struct {
	sig, what string
	tc        *tcase
	seq       []int
	chunk     int
	order     [3]int
	f         finding
}

var flagCount = flag.Bool("count", false, "development aid: only count the points of the enumeration per reader, run nothing")

var flagOnly = flag.String("only", "", "development aid: run only readers whose name contains this string")

// hangAfter is the watchdog for a single run (one reader driven to EOF: normally
// well under 10 ms, a few hundred ms for cogroup on a loaded machine). A run that
// exceeds it is re-executed twice with the same limit before it is reported.
var hangAfter = 240 * time.Second

func init() {
	// Development aid (testing the watchdog itself against a mutated tree).
	if v, err := strconv.Atoi(os.Getenv("C17_HANG_AFTER_S")); err == nil && v >= 20 {
		hangAfter = time.Duration(v) * time.Second
	}
}

type inflight struct {
	tc    *tcase
	seq   []int
	order [3]int
	chunk int
	start time.Time
}

func main() {
	r := ev.Start("C17", "model_checking")
	if *flagOnly != "" {
		r.NotExhaustive("-only " + *flagOnly)
	}
	cfg := mkConfig(r.Thorough())
	// SortReader re-sizes its frame to spillTarget/bytesPerRow rows (millions) once an
	// input exceeds the canary size; the large cogroup inputs (300 rows) stay below it.
	if err := flag.Set("bigslice-internal-default-sort-canary-rows", "512"); err != nil {
		ev.Fatal("set sort canary: %v", err)
	}
	cases := buildCases(cfg)

	stats := map[string]*readerStats{}
	var readerNames []string
	for _, tc := range cases {
		if stats[tc.reader] == nil {
			stats[tc.reader] = &readerStats{}
			readerNames = append(readerNames, tc.reader)
		}
	}
	sort.Strings(readerNames)
	traces := newHashSet()
	outcomes := ev.NewCounter()
	var ocMu sync.Mutex
	outcomeRuns := map[string]int{} // runs per (reader, outcome class)
	countOutcome := func(k string) {
		outcomes.Add(k)
		ocMu.Lock()
		outcomeRuns[k]++
		ocMu.Unlock()
	}
	var totalRuns, totalReads int64
	var vmu sync.Mutex
	best := map[string]*vrec{}
	noSeq := [][]int{{3}}
	var skipped int64
	var sampleMu sync.Mutex
	sampled := map[string]bool{}
	var aborted int32

	var flMu sync.Mutex
	fl := map[int64]*inflight{}
	var flID int64

	record := func(tc *tcase, seq []int, chunk int, ord [3]int, f finding) {
		sig := "C17/" + tc.reader + "/" + f.class
		countOutcome(tc.reader + ": " + f.class)
		vmu.Lock()
		if b := best[sig]; b == nil || less3(ord, b.order) {
			best[sig] = &vrec{sig: sig, tc: tc, seq: seq, chunk: chunk, order: ord, f: f}
		}
		vmu.Unlock()
	}

	if *flagCount {
		counts := map[string]int{}
		total := 0
		for phase := range cfg.chunks {
			for _, tc := range cases {
				if phase == 0 || (tc.chunkDep && !(tc.fewChunks && phase >= 2)) {
					n := len(cfg.seqs)
					if tc.noSeq {
						n = 1
					} else if tc.seqs != nil {
						n = len(tc.seqs)
					} else if tc.fewSeqs {
						n = len(cfg.fewSeqs)
					}
					counts[tc.reader] += n
					total += n
				}
			}
		}
		for _, name := range readerNames {
			fmt.Printf("%-32s %d\n", name, counts[name])
		}
		fmt.Printf("total runs %d, cases %d\n", total, len(cases))
		os.Exit(0)
	}

	done := make(chan struct{})
	go func() {
		defer close(done)
		for phase, chunk := range cfg.chunks {
			setChunk(chunk)
			var todo []int
			for i, tc := range cases {
				if *flagOnly != "" && !strings.Contains(tc.reader, *flagOnly) {
					continue
				}
				if phase == 0 || (tc.chunkDep && !(tc.fewChunks && phase >= 2)) {
					todo = append(todo, i)
				}
			}
			ev.Parallel(len(todo), runtime.NumCPU(), func(k int) {
				ci := todo[k]
				tc := cases[ci]
				if atomic.LoadInt32(&aborted) != 0 || r.OverBudget(cfg.budget) {
					atomic.AddInt64(&skipped, 1)
					return
				}
				seqs := cfg.seqs
				if tc.noSeq {
					seqs = noSeq
				} else if tc.seqs != nil {
					seqs = tc.seqs
				} else if tc.fewSeqs {
					seqs = cfg.fewSeqs
				}
				st := stats[tc.reader]
				for si, seq := range seqs {
					ord := [3]int{phase, ci, si}
					id := atomic.AddInt64(&flID, 1)
					t0 := time.Now()
					flMu.Lock()
					fl[id] = &inflight{tc: tc, seq: seq, order: ord, chunk: chunk, start: t0}
					flMu.Unlock()
					fs, trace, in, nreads := runCase(tc, seq)
					flMu.Lock()
					delete(fl, id)
					flMu.Unlock()
					if atomic.LoadInt32(&aborted) != 0 {
						return
					}
					atomic.AddInt64(&st.ns, int64(time.Since(t0)))
					atomic.AddInt64(&st.runs, 1)
					atomic.AddInt64(&st.reads, int64(nreads))
					atomic.AddInt64(&totalRuns, 1)
					atomic.AddInt64(&totalReads, int64(nreads))
					if in != nil {
						eofRows, zr := false, false
						for _, u := range in.ups {
							if lo, hi := u.eofRange(); hi > lo {
								eofRows = true
							}
							if _, z := u.stats(); z > 0 {
								zr = true
							}
						}
						if eofRows {
							atomic.AddInt64(&st.eofRowRuns, 1)
						}
						if zr {
							atomic.AddInt64(&st.zeroReadRuns, 1)
						}
					}
					if trace != "" {
						traces.add(tc.reader + "|" + trace)
					} else {
						cl := ""
						for _, f := range fs {
							cl += f.class + ","
						}
						traces.add(tc.reader + "|custom|" + cl)
					}
					if len(fs) == 0 {
						countOutcome(tc.reader + ": ok")
						if si == len(seqs)/2 {
							sampleMu.Lock()
							if !sampled[tc.reader] && trace != "" && sampleReaders[tc.reader] && strings.Contains(tc.desc, "+EOF") {
								sampled[tc.reader] = true
								r.Sample(map[string]interface{}{"reader": tc.reader, "case": tc.desc, "destination_lengths": seq, "chunk": chunk, "trace": trace, "verdict": "ok"})
							}
							sampleMu.Unlock()
						}
						continue
					}
					for _, f := range fs {
						record(tc, seq, chunk, ord, f)
					}
				}
			})
		}
	}()

	// Hang watchdog: a Read that never returns (e.g. a reader spinning on an input
	// that makes no progress) cannot be interrupted; it is confirmed by two more
	// executions with the same limit, reported, and the run is ended.
	hung := make(chan struct{})
	go func() {
		for {
			time.Sleep(2 * time.Second)
			var stuck *inflight
			flMu.Lock()
			for _, f := range fl {
				if time.Since(f.start) > hangAfter && (stuck == nil || less3(f.order, stuck.order)) {
					stuck = f
				}
			}
			flMu.Unlock()
			if stuck == nil {
				continue
			}
			confirmed := true
			for k := 0; k < 2 && confirmed; k++ {
				fin := make(chan struct{})
				go func() { runCase(stuck.tc, stuck.seq); close(fin) }()
				select {
				case <-fin:
					confirmed = false
				case <-time.After(hangAfter):
				}
			}
			if !confirmed {
				flMu.Lock()
				stuck.start = time.Now() // slow, not hung: give it another period
				flMu.Unlock()
				continue
			}
			atomic.StoreInt32(&aborted, 1)
			record(stuck.tc, stuck.seq, stuck.chunk, stuck.order, finding{class: "hang",
				msg: fmt.Sprintf("reading to EOF did not finish within %v (three executions); normal runs take milliseconds", hangAfter)})
			close(hung)
			return
		}
	}()
	select {
	case <-done:
	case <-hung:
		r.NotExhaustive("run ended after a confirmed hang inside a Read call (the stuck goroutine cannot be stopped)")
	}
	if skipped > 0 {
		r.NotExhaustive(fmt.Sprintf("time budget %v hit: %d (case, vector-size) points not run", cfg.budget, skipped))
	}

	// Report: simplest counterexample per signature, re-executed first.
	vmu.Lock()
	final := map[string]*vrec{}
	for k, v := range best {
		final[k] = v
	}
	vmu.Unlock()
	var sigs []string
	for sig := range final {
		sigs = append(sigs, sig)
	}
	sort.Strings(sigs)
	for _, sig := range sigs {
		b := final[sig]
		if b.f.class != "hang" {
			setChunk(b.chunk)
			again, _, _, _ := runCase(b.tc, b.seq)
			reproduced := false
			for _, f := range again {
				if f.class == b.f.class {
					reproduced = true
				}
			}
			if !reproduced {
				if atomic.LoadInt32(&aborted) != 0 {
					continue // recorded while the run was being torn down
				}
				ev.Fatal("finding %s on case %q seq %v did not reproduce on re-execution (harness nondeterminism)", sig, b.tc.desc, b.seq)
			}
		}
		detail := map[string]interface{}{
			"reader":      b.tc.reader,
			"case":        b.tc.desc,
			"vector_size": b.chunk,
			"trace":       b.f.trace,
			"observed":    b.f.msg,
		}
		where := ""
		if !b.tc.noSeq {
			detail["destination_lengths"] = b.seq
			where = fmt.Sprintf(", destination frame lengths %v (cycled)", b.seq)
		}
		if b.tc.ref != nil {
			ref := fulls(b.tc.ref(b.tc.inputs))
			if len(ref) > 24 {
				detail["reference_rows_total"] = len(ref)
				ref = ref[:24]
			}
			detail["reference_rows"] = ref
		}
		r.Violate(sig, fmt.Sprintf("%s [%s]%s: %s", b.tc.reader, b.tc.desc, where, b.f.msg), detail)
	}

	for _, name := range readerNames {
		st := stats[name]
		r.Note("%s: runs=%d reads=%d runs_with_rows_delivered_with_EOF_by_an_input=%d runs_with_zero_row_input_reads=%d",
			name, atomic.LoadInt64(&st.runs), atomic.LoadInt64(&st.reads), atomic.LoadInt64(&st.eofRowRuns), atomic.LoadInt64(&st.zeroReadRuns))
		if os.Getenv("C17_TIMING") != "" {
			fmt.Fprintf(os.Stderr, "c17: %-28s runs=%-8d reads=%-9d busy=%.1fs\n", name, st.runs, st.reads, float64(st.ns)/1e9)
		}
	}
	ocMu.Lock()
	var ocs []string
	for _, k := range outcomes.Keys() {
		ocs = append(ocs, fmt.Sprintf("%s ×%d", k, outcomeRuns[k]))
	}
	ocMu.Unlock()
	r.Note("outcomes (runs): %s", strings.Join(ocs, "; "))
	r.Note("cases=%d destination_sequences=%d (reduced set for cogroup: %d) vector_sizes=%v", len(cases), len(cfg.seqs), len(cfg.fewSeqs), cfg.chunks)
	fmt.Fprintf(os.Stderr, "c17: cases=%d runs=%d reads=%d distinct_traces=%d distinct_outcomes=%d\n", len(cases), atomic.LoadInt64(&totalRuns), atomic.LoadInt64(&totalReads), traces.size(), outcomes.Distinct())
	r.Finish(ev.Coverage{
		"states":                        traces.size(),
		"transitions":                   atomic.LoadInt64(&totalReads),
		"traces_validated_against_impl": atomic.LoadInt64(&totalRuns),
		"distinct_outcomes":             outcomes.Distinct(),
		"readers_under_test":            len(readerNames),
		"cases":                         len(cases),
	})
}

var sampleReaders = map[string]bool{"flatmap": true, "filter": true, "cogroup": true, "sortio.MergeReader": true,
	"reduce(sortio.Reduce)": true, "fold": true, "head": true, "map": true}

func less3(a, b [3]int) bool {
	for i := range a {
		if a[i] != b[i] {
			return a[i] < b[i]
		}
	}
	return false
}

var _ = slicetype.New
