package main

import (
	"context"
	"fmt"
	"reflect"
	"sort"
	"strconv"
	"strings"

	"github.com/grailbio/bigslice/frame"
	"github.com/grailbio/bigslice/sliceio"
	"github.com/grailbio/bigslice/slicetype"
)

// ---- column values ---------------------------------------------------------

// pt is a column type with a pointer and a string (reference-carrying rows:
// aliasing of reader-internal buffers would show as altered delivered rows).
type pt struct {
	P *int64
	S string
}

var (
	tInt    = reflect.TypeOf(int(0))
	tInt64  = reflect.TypeOf(int64(0))
	tString = reflect.TypeOf("")
	tBytes  = reflect.TypeOf([]byte(nil))
	tPt     = reflect.TypeOf(pt{})
	tBool   = reflect.TypeOf(false)
	tError  = reflect.TypeOf((*error)(nil)).Elem()
)

// sentinelOrd is the ordinal whose value pre-fills destination frames; no data
// row ever uses it.
const sentinelOrd = -1

// mkVal returns a freshly allocated value of type t for ordinal ord (data rows
// use ord >= 0). Values of one type are ordered like their ordinals.
func mkVal(t reflect.Type, ord int) reflect.Value {
	switch t {
	case tInt:
		if ord < 0 {
			return reflect.ValueOf(-7777)
		}
		return reflect.ValueOf(100 + ord)
	case tInt64:
		if ord < 0 {
			return reflect.ValueOf(int64(-7777))
		}
		return reflect.ValueOf(int64(100 + ord))
	case tString:
		if ord < 0 {
			return reflect.ValueOf("~SENTINEL~")
		}
		return reflect.ValueOf(fmt.Sprintf("s%03d", ord))
	case tBytes:
		if ord < 0 {
			return reflect.ValueOf([]byte("~S~"))
		}
		return reflect.ValueOf([]byte(fmt.Sprintf("b%03d", ord)))
	case tPt:
		p := new(int64)
		if ord < 0 {
			*p = -1
			return reflect.ValueOf(pt{P: p, S: "~S~"})
		}
		*p = int64(1000 + ord)
		return reflect.ValueOf(pt{P: p, S: fmt.Sprintf("p%03d", ord)})
	}
	if t.Kind() == reflect.Slice {
		// Only cogroup output columns ([]V): used for the sentinel.
		s := reflect.MakeSlice(t, 1, 1)
		s.Index(0).Set(mkVal(t.Elem(), ord))
		return s
	}
	panic("mkVal: type " + t.String())
}

// canon is a deep, canonical rendering of a value (pointers are followed, byte
// slices rendered by content). With sortElems the elements of non-byte slices are
// sorted (cogroup groups: the order inside a group is not fixed by anything).
func canon(v reflect.Value, sortElems bool) string {
	switch v.Kind() {
	case reflect.Int, reflect.Int64:
		return strconv.FormatInt(v.Int(), 10)
	case reflect.String:
		return strconv.Quote(v.String())
	case reflect.Bool:
		return strconv.FormatBool(v.Bool())
	case reflect.Slice:
		if v.Type().Elem().Kind() == reflect.Uint8 {
			return "b" + strconv.Quote(string(v.Bytes()))
		}
		parts := make([]string, v.Len())
		for i := range parts {
			parts[i] = canon(v.Index(i), sortElems)
		}
		if sortElems {
			sort.Strings(parts)
		}
		return "[" + strings.Join(parts, " ") + "]"
	case reflect.Ptr:
		if v.IsNil() {
			return "nil"
		}
		return "&" + canon(v.Elem(), sortElems)
	case reflect.Struct:
		parts := make([]string, v.NumField())
		for i := range parts {
			parts[i] = canon(v.Field(i), sortElems)
		}
		return "{" + strings.Join(parts, " ") + "}"
	}
	panic("canon: kind " + v.Kind().String())
}

// ---- schemas and model rows -------------------------------------------------

type schema struct {
	name string
	cols []reflect.Type
}

func (s *schema) typ() slicetype.Type { return slicetype.New(s.cols...) }

// mrow is a model row: one ordinal per column.
type mrow []int

// crow is a row rendered column by column.
type crow []string

func (c crow) full() string { return strings.Join(c, ",") }

func (s *schema) canonRow(r mrow) crow {
	out := make(crow, len(s.cols))
	for c, t := range s.cols {
		out[c] = canon(mkVal(t, r[c]), false)
	}
	return out
}

func (s *schema) canonRows(rows []mrow) []crow {
	out := make([]crow, len(rows))
	for i, r := range rows {
		out[i] = s.canonRow(r)
	}
	return out
}

// stdRows: row i has ordinal i in every column.
func (s *schema) stdRows(n int) []mrow {
	rows := make([]mrow, n)
	for i := range rows {
		rows[i] = make(mrow, len(s.cols))
		for c := range rows[i] {
			rows[i][c] = i
		}
	}
	return rows
}

// keyedRows: column 0 carries keys[i], the other columns ordinal base+i.
func (s *schema) keyedRows(keys []int, base int) []mrow {
	rows := make([]mrow, len(keys))
	for i := range rows {
		rows[i] = make(mrow, len(s.cols))
		rows[i][0] = keys[i]
		for c := 1; c < len(s.cols); c++ {
			rows[i][c] = base + i
		}
	}
	return rows
}

// buildFrame makes a fresh frame (fresh backing memory for every reference)
// holding rows.
func buildFrame(t slicetype.Type, cols []reflect.Type, rows []mrow) frame.Frame {
	f := frame.Make(t, len(rows), len(rows))
	for i, r := range rows {
		for c, ct := range cols {
			f.Index(c, i).Set(mkVal(ct, r[c]))
		}
	}
	return f
}

func frameRow(f frame.Frame, i int, sortElems bool) crow {
	out := make(crow, f.NumOut())
	for c := range out {
		out[c] = canon(f.Index(c, i), sortElems)
	}
	return out
}

func snapshot(f frame.Frame) string {
	var b strings.Builder
	for i := 0; i < f.Len(); i++ {
		b.WriteString(frameRow(f, i, false).full())
		b.WriteByte(';')
	}
	return b.String()
}

// ---- upstream scripts --------------------------------------------------------

// script is how an upstream delivers its rows: reads[i] rows per call (0 = a read
// that returns no rows and no EOF); after the last entry either the last rows came
// together with EOF (eofWithLast) or a separate (0, EOF) follows. Both forms are
// allowed by the Reader contract (sliceio/reader.go:41-44).
type script struct {
	reads       []int
	eofWithLast bool
}

func (s script) String() string {
	parts := make([]string, len(s.reads))
	for i, n := range s.reads {
		parts[i] = strconv.Itoa(n)
	}
	if s.eofWithLast {
		return strings.Join(parts, ",") + "+EOF"
	}
	return strings.Join(append(parts, "EOF"), ",")
}

func (s script) zeros() int {
	z := 0
	for _, n := range s.reads {
		if n == 0 {
			z++
		}
	}
	return z
}

// compositions of n into parts 1..maxPart, shortest first.
func compositions(n, maxPart int) [][]int {
	var out [][]int
	var rec func(rem int, cur []int)
	rec = func(rem int, cur []int) {
		if rem == 0 {
			out = append(out, append([]int(nil), cur...))
			return
		}
		for p := 1; p <= maxPart && p <= rem; p++ {
			rec(rem-p, append(cur, p))
		}
	}
	rec(n, nil)
	sort.SliceStable(out, func(i, j int) bool { return len(out[i]) < len(out[j]) })
	return out
}

type zmode int

const (
	zNone   zmode = iota // no zero-row reads
	zSingle              // at most one zero-row read per script
	zFull                // zero or one zero-row read in every slot (before each chunk, and before a separate EOF)
)

// scriptsFor enumerates every chunking of n rows into reads of 1..3 rows, with
// zero-row reads inserted according to zm, in both EOF forms; simplest first.
func scriptsFor(n int, zm zmode) []script {
	var out []script
	for _, comp := range compositions(n, 3) {
		for _, withEOF := range []bool{false, true} {
			if withEOF && len(comp) == 0 {
				continue // no rows: only (0, EOF) is possible
			}
			slots := len(comp) + 1 // a zero-row read before chunk i, or before the separate EOF
			if withEOF {
				slots = len(comp)
			}
			var masks []int
			switch zm {
			case zNone:
				masks = []int{0}
			case zSingle:
				masks = []int{0}
				for i := 0; i < slots; i++ {
					masks = append(masks, 1<<uint(i))
				}
			case zFull:
				for m := 0; m < 1<<uint(slots); m++ {
					masks = append(masks, m)
				}
			}
			for _, m := range masks {
				var reads []int
				for i := 0; i < len(comp); i++ {
					if m>>uint(i)&1 == 1 {
						reads = append(reads, 0)
					}
					reads = append(reads, comp[i])
				}
				if !withEOF && m>>uint(len(comp))&1 == 1 {
					reads = append(reads, 0)
				}
				out = append(out, script{reads: reads, eofWithLast: withEOF})
			}
		}
	}
	sort.SliceStable(out, func(i, j int) bool {
		if a, b := out[i].zeros(), out[j].zeros(); a != b {
			return a < b
		}
		return len(out[i].reads) < len(out[j].reads)
	})
	return out
}

// dstSeqs: every sequence of destination lengths over {1,2,3,5} of length
// 1..maxLen; a sequence is cycled for as many Reads as the run needs.
func dstSeqs(maxLen int) [][]int {
	alpha := []int{1, 2, 3, 5}
	var out [][]int
	var rec func(cur []int, l int)
	rec = func(cur []int, l int) {
		if len(cur) == l {
			out = append(out, append([]int(nil), cur...))
			return
		}
		for _, a := range alpha {
			rec(append(cur, a), l)
		}
	}
	for l := 1; l <= maxLen; l++ {
		rec(nil, l)
	}
	return out
}

// ---- scripted upstream reader --------------------------------------------------

// tracker is what the oracle needs from an input of the reader under test.
type tracker interface {
	// eofRange is the index range of input rows that were delivered together
	// with EOF (lo == hi if none).
	eofRange() (lo, hi int)
	// mutated reports a change of the rows handed out ("" if none).
	mutated() string
	stats() (calls, zeroReads int)
}

// upstream plays a script. It respects the Reader contract: it never returns more
// rows than the frame it is given holds (a scripted chunk larger than the frame
// is delivered over several calls), it hands out freshly allocated rows and never
// touches a frame after returning, and after EOF it keeps returning (0, EOF).
type upstream struct {
	sc        script
	src       frame.Frame
	srcSnap   string
	ri, taken int
	pos       int
	done      bool
	lo, hi    int
	calls, zr int
}

func newUpstream(s *schema, rows []mrow, sc script) *upstream {
	src := buildFrame(s.typ(), s.cols, rows)
	return &upstream{sc: sc, src: src, srcSnap: snapshot(src)}
}

func (u *upstream) Read(ctx context.Context, out frame.Frame) (int, error) {
	u.calls++
	if u.done {
		return 0, sliceio.EOF
	}
	if u.ri == len(u.sc.reads) {
		u.done = true
		return 0, sliceio.EOF
	}
	n := u.sc.reads[u.ri] - u.taken
	if l := out.Len(); l < n {
		n = l
	}
	if n > 0 {
		if m := frame.Copy(out.Slice(0, n), u.src.Slice(u.pos, u.pos+n)); m != n {
			panic("upstream: short copy")
		}
	} else {
		u.zr++
	}
	u.pos += n
	u.taken += n
	if u.taken == u.sc.reads[u.ri] {
		u.ri++
		u.taken = 0
	}
	if u.ri == len(u.sc.reads) && u.sc.eofWithLast && n > 0 {
		u.done = true
		u.lo, u.hi = u.pos-n, u.pos
		return n, sliceio.EOF
	}
	return n, nil
}

func (u *upstream) eofRange() (int, int) { return u.lo, u.hi }
func (u *upstream) mutated() string {
	if s := snapshot(u.src); s != u.srcSnap {
		return fmt.Sprintf("input rows were %s, are now %s", u.srcSnap, s)
	}
	return ""
}
func (u *upstream) stats() (int, int) { return u.calls, u.zr }

// tap wraps a real library reader used as an input of another reader and records
// which rows it delivered together with EOF.
type tap struct {
	r         sliceio.Reader
	pos       int
	lo, hi    int
	calls, zr int
}

func (t *tap) Read(ctx context.Context, out frame.Frame) (int, error) {
	n, err := t.r.Read(ctx, out)
	t.calls++
	if n == 0 && err == nil {
		t.zr++
	}
	if err == sliceio.EOF && n > 0 {
		t.lo, t.hi = t.pos, t.pos+n
	}
	t.pos += n
	return n, err
}
func (t *tap) eofRange() (int, int) { return t.lo, t.hi }
func (t *tap) mutated() string      { return "" }
func (t *tap) stats() (int, int)    { return t.calls, t.zr }
