package main

import (
	"fmt"
	"reflect"

	"github.com/grailbio/bigslice/sliceio"
)

// Scanner clauses: "A scanner yields each row exactly once in order, reports end
// with a nil error, and rejects destinations of the wrong arity or type with an
// error."

func scanPtrs(s *schema) []interface{} {
	ptrs := make([]interface{}, len(s.cols))
	for c, t := range s.cols {
		ptrs[c] = reflect.New(t).Interface()
	}
	return ptrs
}

func ptrRow(ptrs []interface{}) crow {
	out := make(crow, len(ptrs))
	for c, p := range ptrs {
		out[c] = canon(reflect.ValueOf(p).Elem(), false)
	}
	return out
}

// scanAll drains a scanner row by row.
func scanAll(s *schema, sc *sliceio.Scanner) (rows []crow, fs []finding) {
	defer func() {
		if e := recover(); e != nil {
			fs = append(fs, finding{class: "panic", msg: fmt.Sprintf("Scan panicked: %v", e)})
		}
	}()
	for i := 0; ; i++ {
		if i > maxReads {
			return rows, []finding{{class: "no-termination", msg: "Scan keeps returning true"}}
		}
		ptrs := scanPtrs(s)
		if !sc.Scan(bg, ptrs...) {
			break
		}
		rows = append(rows, ptrRow(ptrs))
	}
	if err := sc.Err(); err != nil {
		fs = append(fs, finding{class: "err-at-end", msg: fmt.Sprintf("Err() = %v after the last row, want nil", err)})
	}
	if sc.Scan(bg, scanPtrs(s)...) {
		fs = append(fs, finding{class: "row-after-end", msg: "Scan returned true after it had returned false"})
	} else if err := sc.Err(); err != nil {
		fs = append(fs, finding{class: "err-at-end", msg: fmt.Sprintf("Err() = %v after a further Scan at the end, want nil", err)})
	}
	return rows, fs
}

func scanvAll(s *schema, sc *sliceio.Scanner, seq []int) (rows []crow, fs []finding) {
	defer func() {
		if e := recover(); e != nil {
			fs = append(fs, finding{class: "panic", msg: fmt.Sprintf("Scanv panicked: %v", e)})
		}
	}()
	for i := 0; ; i++ {
		if i > maxReads {
			return rows, []finding{{class: "no-termination", msg: "Scanv keeps returning true"}}
		}
		l := seq[i%len(seq)]
		cols := make([]interface{}, len(s.cols))
		vals := make([]reflect.Value, len(s.cols))
		for c, t := range s.cols {
			vals[c] = reflect.MakeSlice(reflect.SliceOf(t), l, l)
			for j := 0; j < l; j++ {
				vals[c].Index(j).Set(mkVal(t, sentinelOrd))
			}
			cols[c] = vals[c].Interface()
		}
		n, ok := sc.Scanv(bg, cols...)
		if n < 0 || n > l {
			return rows, []finding{{class: "n-out-of-range", msg: fmt.Sprintf("Scanv into vectors of length %d returned %d", l, n)}}
		}
		for j := 0; j < n; j++ {
			row := make(crow, len(vals))
			for c := range vals {
				row[c] = canon(vals[c].Index(j), false)
			}
			rows = append(rows, row)
		}
		for j := n; j < l; j++ {
			for c, t := range s.cols {
				if got, want := canon(vals[c].Index(j), false), canon(mkVal(t, sentinelOrd), false); got != want {
					fs = append(fs, finding{class: "writes-beyond-n", msg: fmt.Sprintf("Scanv returned %d but element %d of column %d changed to %s", n, j, c, got)})
				}
			}
		}
		if !ok {
			break
		}
	}
	if err := sc.Err(); err != nil {
		fs = append(fs, finding{class: "err-at-end", msg: fmt.Sprintf("Err() = %v after the last row, want nil", err)})
	}
	return rows, fs
}

func judgeScan(got, want []crow) []finding {
	if sameRows(cmpExact, got, want) {
		return nil
	}
	return []finding{{class: "rows-differ", msg: fmt.Sprintf("scanned %v, want %v", fulls(got), fulls(want))}}
}

var tFloat = reflect.TypeOf(float64(0))

// badScanArgs builds a wrongly shaped destination list for Scan.
func badScanArgs(s *schema, kind string) ([]interface{}, bool) {
	good := scanPtrs(s)
	switch kind {
	case "arity-1":
		if len(good) < 2 {
			return nil, false
		}
		return good[:len(good)-1], true
	case "arity0":
		return nil, true
	case "arity+1":
		return append(good, new(int)), true
	case "wrong-pointer-type":
		good[len(good)-1] = new(float64)
		return good, true
	case "non-pointer":
		good[0] = reflect.Zero(s.cols[0]).Interface()
		return good, true
	case "nil":
		good[0] = nil
		return good, true
	}
	panic(kind)
}

var badScanKinds = []string{"arity0", "arity-1", "arity+1", "wrong-pointer-type", "non-pointer", "nil"}

func badScanvArgs(s *schema, kind string) ([]interface{}, bool) {
	good := make([]interface{}, len(s.cols))
	for c, t := range s.cols {
		good[c] = reflect.MakeSlice(reflect.SliceOf(t), 2, 2).Interface()
	}
	switch kind {
	case "arity-1":
		if len(good) < 2 {
			return nil, false
		}
		return good[:len(good)-1], true
	case "arity0":
		return nil, true
	case "arity+1":
		return append(good, make([]int, 2)), true
	case "wrong-element-type":
		good[len(good)-1] = make([]float64, 2)
		return good, true
	}
	panic(kind)
}

var badScanvKinds = []string{"arity0", "arity-1", "arity+1", "wrong-element-type"}

// badDest scans `after` rows correctly, then makes one call with a wrongly
// shaped destination: it must be refused with an error (Err() != nil), not
// accepted and not answered with a panic.
func badDest(s *schema, sc *sliceio.Scanner, after int, vector bool, kind string, args []interface{}) (fs []finding) {
	for i := 0; i < after; i++ {
		if !sc.Scan(bg, scanPtrs(s)...) {
			return []finding{{class: "rows-lost", msg: fmt.Sprintf("Scan returned false after %d rows, Err()=%v", i, sc.Err())}}
		}
	}
	var (
		ok       bool
		panicked interface{}
	)
	func() {
		defer func() { panicked = recover() }()
		if vector {
			_, ok = sc.Scanv(bg, args...)
		} else {
			ok = sc.Scan(bg, args...)
		}
	}()
	what := "Scan"
	if vector {
		what = "Scanv"
	}
	switch {
	case panicked != nil:
		return []finding{{class: "bad-dest:" + kind + ":panic", msg: fmt.Sprintf("%s with destinations of kind %q (after %d rows) panicked instead of reporting an error: %v", what, kind, after, panicked)}}
	case ok:
		return []finding{{class: "bad-dest:" + kind + ":accepted", msg: fmt.Sprintf("%s with destinations of kind %q (after %d rows) returned true", what, kind, after)}}
	case sc.Err() == nil:
		return []finding{{class: "bad-dest:" + kind + ":no-error", msg: fmt.Sprintf("%s with destinations of kind %q (after %d rows) returned false but Err() is nil", what, kind, after)}}
	}
	return nil
}

func scannerCases(cfg *config) []*tcase {
	var out []*tcase
	for _, s := range cfg.schemas {
		s := s
		for _, n := range []int{5, 0} {
			rows := s.stdRows(n)
			want := s.canonRows(rows)
			for _, sc := range scriptsFor(n, zNone) {
				sc := sc
				desc := fmt.Sprintf("schema=%s rows=%d upstream=[%s]", s.name, n, sc)
				out = append(out, &tcase{
					reader: "sliceio.Scanner.Scan", desc: desc, chunkDep: true, noSeq: true,
					custom: func(seq []int) []finding {
						u := newUpstream(s, rows, sc)
						got, fs := scanAll(s, sliceio.NewScanner(s.typ(), sliceio.NopCloser(u)))
						if len(fs) == 0 {
							fs = judgeScan(got, want)
						}
						return fs
					},
				})
				out = append(out, &tcase{
					reader: "sliceio.Scanner.Scanv", desc: desc, chunkDep: true,
					custom: func(seq []int) []finding {
						u := newUpstream(s, rows, sc)
						got, fs := scanvAll(s, sliceio.NewScanner(s.typ(), sliceio.NopCloser(u)), seq)
						if len(fs) == 0 {
							fs = judgeScan(got, want)
						}
						return fs
					},
				})
			}
		}
		// Wrongly shaped destinations, at the start, in the middle of a read-ahead
		// vector and at the end of the data.
		rows := s.stdRows(5)
		for _, sc := range []script{{reads: []int{2, 3}}, {reads: []int{3, 2}, eofWithLast: true}} {
			sc := sc
			for _, after := range []int{0, 1, 2, 4, 5} {
				after := after
				for _, vector := range []bool{false, true} {
					vector := vector
					kinds, name := badScanKinds, "sliceio.Scanner.Scan"
					if vector {
						kinds, name = badScanvKinds, "sliceio.Scanner.Scanv"
					}
					for _, kind := range kinds {
						kind := kind
						mkArgs := badScanArgs
						if vector {
							mkArgs = badScanvArgs
						}
						if _, ok := mkArgs(s, kind); !ok {
							continue
						}
						out = append(out, &tcase{
							reader: name, chunkDep: true, noSeq: true,
							desc: fmt.Sprintf("schema=%s upstream=[%s] after=%d destinations=%s", s.name, sc, after, kind),
							custom: func(seq []int) []finding {
								u := newUpstream(s, rows, sc)
								args, _ := mkArgs(s, kind)
								return badDest(s, sliceio.NewScanner(s.typ(), sliceio.NopCloser(u)), after, vector, kind, args)
							},
						})
					}
				}
			}
		}
	}
	return out
}
