package main

import (
	"context"

	"github.com/grailbio/bigslice"
)

var someFunc = func(a int) int { ran(); return a }

func aSlice() bigslice.Slice { return bigslice.Const(1, []int{1}) }

// fnUniverse is the universe of "function values" handed to EVERY constructor
// that takes a function (Map, Filter, Flatmap, Fold, Reduce, Repartition,
// WriterFunc, ReaderFunc, Func). Every body calls ran().
var fnUniverse = []interface{}{
	// ---- non-functions
	nil,
	42,
	"fn",
	struct{}{},
	&someFunc,
	[]func(int) int{someFunc},
	(func(int) int)(nil), // typed nil function
	(func(string, int) bool)(nil),

	// ---- row functions (Map-like), various arities / permutations
	func(a int) int { ran(); return a },
	func(a int) (int, string) { ran(); return a, "" },
	func(a string) int { ran(); return 0 },
	func(a string) (string, string) { ran(); return a, a },
	func(a, b int) int { ran(); return a },
	func(a string, b int) (string, int) { ran(); return a, b },
	func(a int, b string) string { ran(); return b },
	func(a int, b string) (string, int) { ran(); return b, a },
	func(a string, b int) string { ran(); return a },
	func(a int, b string, c float64) (float64, int) { ran(); return c, a },
	func(a string, b int, c float64) int { ran(); return b },
	func(a string, b, c int) int { ran(); return b },
	func(a int, b hkey, c string) string { ran(); return c },
	func(a []int, b int) int { ran(); return b },
	func(a hkey, b int) int { ran(); return b },
	func(a skey, b int) int { ran(); return b },
	func(a int, b []string) int { ran(); return a },
	func(a float64, b int) int { ran(); return b },
	func(a int64) int { ran(); return 0 },
	func(a int) error { ran(); return nil },
	func(a int) { ran() },
	func(a string, b int) { ran() },
	func() int { ran(); return 0 },
	func() { ran() },

	// ---- context forms
	func(ctx context.Context, a int) int { ran(); return a },
	func(ctx context.Context, a string, b int) bool { ran(); return true },
	func(ctx context.Context, a, b int) int { ran(); return a },
	func(ctx context.Context, a string, b int) string { ran(); return a },
	func(ctx context.Context, a int) []int { ran(); return nil },
	func(a int, ctx context.Context) int { ran(); return a },
	func(ctx, ctx2 context.Context, a int) int { ran(); return a },
	func(ctx context.Context) int { ran(); return 0 },

	// ---- first parameter of a type that implements context.Context without
	// being it (a column parameter, not the optional context argument), with and
	// without a real context.Context in front
	func(c traceCtx, a int) int { ran(); return a },
	func(c traceCtx, a int) bool { ran(); return true },
	func(c traceCtx, a int) []int { ran(); return nil },
	func(c traceCtx) int { ran(); return 0 },
	func(ctx context.Context, c traceCtx, a int) int { ran(); return a },
	func(ctx context.Context, c traceCtx, a int) bool { ran(); return true },
	func(c ctxStruct, a int) int { ran(); return a },
	func(c ctxStruct, a int) bool { ran(); return true },
	func(c *ctxStruct, a int) int { ran(); return a },
	func(ctx context.Context, c ctxStruct, a int) []int { ran(); return nil },
	func(c traceCtx, a int, b string) (string, int) { ran(); return b, a },
	// accumulators / reducers whose accumulator or value type is such a type
	func(acc traceCtx, v int) traceCtx { ran(); return acc },
	func(acc ctxStruct, v string) ctxStruct { ran(); return acc },
	func(ctx context.Context, acc traceCtx, v int) traceCtx { ran(); return acc },
	func(a, b traceCtx) traceCtx { ran(); return a },
	func(ctx context.Context, a, b traceCtx) traceCtx { ran(); return a },
	func(a, b ctxStruct) ctxStruct { ran(); return a },
	// partition / reader / writer functions with such a parameter in front
	func(c traceCtx, n int, a int) int { ran(); return 0 },
	func(n int, c traceCtx, a int) int { ran(); return 0 },
	func(c traceCtx, shard int, state int, a []int) (int, error) { ran(); return 0, nil },
	func(c ctxStruct, shard int, state int, a []int) (int, error) { ran(); return 0, nil },
	func(c traceCtx, shard int, state int, err error, a []int) error { ran(); return nil },
	func(shard int, state int, err error, a []traceCtx, b []int) error { ran(); return nil },
	func(ctx context.Context, shard int, state int, err error, a []traceCtx, b []int) error {
		ran()
		return nil
	},
	func(shard int, state traceCtx, a []traceCtx) (int, error) { ran(); return 0, nil },

	// ---- variadic forms
	func(a int, b ...int) int { ran(); return a },
	func(a ...int) int { ran(); return 0 },
	func(a string, b ...int) bool { ran(); return true },
	func(a int, b ...string) int { ran(); return a },
	func(a int, b ...float64) int { ran(); return a },

	// ---- parameter types the columns are assignable to but not identical with
	func(a interface{}) int { ran(); return 0 },
	func(a string, b interface{}) bool { ran(); return true },

	// ---- predicates (Filter)
	func(a int) bool { ran(); return true },
	func(a string) bool { ran(); return true },
	func(a, b int) bool { ran(); return true },
	func(a string, b int) bool { ran(); return true },
	func(a int, b string) bool { ran(); return true },
	func(a int, b string, c float64) bool { ran(); return true },
	func(a []int, b int) bool { ran(); return true },
	func(a int) myBool { ran(); return true },
	func(a int) (bool, bool) { ran(); return true, true },
	func(a int) (bool, error) { ran(); return true, nil },

	// ---- vectorised results (Flatmap)
	func(a int) []int { ran(); return nil },
	func(a string, b int) ([]string, []int) { ran(); return nil, nil },
	func(a int) ([]int, string) { ran(); return nil, "" },
	func(a, b int) ([]int, []string, []float64) { ran(); return nil, nil, nil },
	func(a int, b string) [][]string { ran(); return nil },
	func(a hkey, b int) []hkey { ran(); return nil },

	// ---- accumulators / reducers (Fold, Reduce)
	func(a, b string) string { ran(); return a },
	func(a, b float64) float64 { ran(); return a },
	func(a float64, b string, c float64) float64 { ran(); return a },
	func(a, b int) string { ran(); return "" },
	func(a, b int) (int, int) { ran(); return a, b },
	func(a, b, c int) int { ran(); return a },
	func(a []int, b int) []int { ran(); return a },
	func(a int, b int) int64 { ran(); return 0 },

	// ---- partition functions (Repartition): func(nshard int, cols...) int
	func(n int, a string, b int) int { ran(); return 0 },
	func(n int, a int, b string) int { ran(); return 0 },
	func(n int, a string, b int) string { ran(); return "" },
	func(n int, a string, b, c int) int { ran(); return 0 },
	func(n int, a int, b string, c float64) int { ran(); return 0 },
	func(n int, a []int, b int) int { ran(); return 0 },
	func(ctx context.Context, n int, a string, b int) int { ran(); return 0 },
	func(n string, a int) int { ran(); return 0 },

	// ---- reader functions: func(shard int, state T, cols ...[]T) (int, error)
	func(shard int, state int, a []int) (int, error) { ran(); return 0, nil },
	func(shard int, state *st, a []string, b []int) (int, error) { ran(); return 0, nil },
	func(ctx context.Context, shard int, state st, a []int) (int, error) { ran(); return 0, nil },
	func(shard int, state []int, a []int, b []string, c []float64) (int, error) { ran(); return 0, nil },
	func(shard int, state int, a int) (int, error) { ran(); return 0, nil },
	func(shard int, state int, a []int, b string) (int, error) { ran(); return 0, nil },
	func(shard int, state int, a []int) int { ran(); return 0 },
	func(shard int, state int, a []int) error { ran(); return nil },
	func(shard int, state int, a []int) { ran() },
	func(shard string, state int, a []int) (int, error) { ran(); return 0, nil },
	func(shard int, state int) (int, error) { ran(); return 0, nil },
	func(shard int) (int, error) { ran(); return 0, nil },
	func() (int, error) { ran(); return 0, nil },
	func(shard int, state int, a []int) (error, int) { ran(); return nil, 0 },
	func(shard int, state int, a []int) (int, *myErr) { ran(); return 0, nil },
	func(shard int, state int, a []int) (int, error, int) { ran(); return 0, nil, 0 },
	func(shard int, state int, a []int) (string, error) { ran(); return "", nil },
	func(shard int, state int, a ...int) (int, error) { ran(); return 0, nil },

	// ---- writer functions: func(shard int, state T, err error, cols ...[]T) error
	func(shard int, state int, err error, a []int) error { ran(); return nil },
	func(shard int, state *st, err error, a []string, b []int) error { ran(); return nil },
	func(ctx context.Context, shard int, state st, err error, a []int) error { ran(); return nil },
	func(shard int, state int, err error, a []int, b []int) error { ran(); return nil },
	func(shard int, state int, err error, a []int, b []string) error { ran(); return nil },
	func(shard int, state int, err error, a []int, b []string, c []float64) error { ran(); return nil },
	func(shard int, state int, err error, a []string, b []int, c []int) error { ran(); return nil },
	func(shard int, state int, err error, a [][]int, b []int) error { ran(); return nil },
	func(shard int, state int, err error, a []int, b [][]string) error { ran(); return nil },
	func(shard int, state int, err error, a int) error { ran(); return nil },
	func(shard int, state int, err error, a []int) { ran() },
	func(shard int, state int, err error, a []int) (error, error) { ran(); return nil, nil },
	func(shard int, state int, err error, a []int) int { ran(); return 0 },
	func(shard int, state int, a []int) error { ran(); return nil },
	func(shard int, state int, err *myErr, a []int) error { ran(); return nil },
	func(shard string, state int, err error, a []int) error { ran(); return nil },
	func(shard int, state int, err error) error { ran(); return nil },
	func(shard int, state int, err error, a []string) error { ran(); return nil },

	// ---- bigslice funcs: func(args...) bigslice.Slice
	func() bigslice.Slice { ran(); return aSlice() },
	func(a int) bigslice.Slice { ran(); return aSlice() },
	func(a int, b string) bigslice.Slice { ran(); return aSlice() },
	func(s bigslice.Slice) bigslice.Slice { ran(); return s },
	func(a ...int) bigslice.Slice { ran(); return aSlice() },
	func(ctx context.Context, a int) bigslice.Slice { ran(); return aSlice() },
	func() (bigslice.Slice, error) { ran(); return aSlice(), nil },
	func() (bigslice.Slice, bigslice.Slice) { ran(); return aSlice(), aSlice() },
	func(a int) *implSlice { ran(); return nil },
	func(a int) interface{} { ran(); return nil },
}

// implSlice is a concrete type implementing bigslice.Slice (for "returns a
// Slice value, but not the type bigslice.Slice").
type implSlice struct{ bigslice.Slice }

// ---- bigslice.Func values for the Invocation / Apply universe ---------------
// Created at package init, in a fixed order.

type invFunc struct {
	name string
	fv   *bigslice.FuncValue
	fn   interface{}
}

func mkInv(name string, fn interface{}) invFunc {
	return invFunc{name, bigslice.Func(fn), fn}
}

var invFuncs = []invFunc{
	mkInv("func()", func() bigslice.Slice { ran(); return aSlice() }),
	mkInv("func(int)", func(a int) bigslice.Slice { ran(); return aSlice() }),
	mkInv("func(int,string)", func(a int, b string) bigslice.Slice { ran(); return aSlice() }),
	mkInv("func(string,int)", func(a string, b int) bigslice.Slice { ran(); return aSlice() }),
	mkInv("func(Slice)", func(s bigslice.Slice) bigslice.Slice { ran(); return aSlice() }),
	mkInv("func(interface{})", func(a interface{}) bigslice.Slice { ran(); return aSlice() }),
	mkInv("func(*int)", func(a *int) bigslice.Slice { ran(); return aSlice() }),
	mkInv("func([]int)", func(a []int) bigslice.Slice { ran(); return aSlice() }),
	mkInv("func(myInt)", func(a myInt) bigslice.Slice { ran(); return aSlice() }),
	mkInv("func(error,int)", func(e error, a int) bigslice.Slice { ran(); return aSlice() }),
	mkInv("func(...int)", func(a ...int) bigslice.Slice { ran(); return aSlice() }),
	mkInv("func(int,int,int)", func(a, b, c int) bigslice.Slice { ran(); return aSlice() }),
	mkInv("func(IDs)", func(a IDs) bigslice.Slice { ran(); return aSlice() }),
	mkInv("func(Table)", func(a Table) bigslice.Slice { ran(); return aSlice() }),
	mkInv("func(map[string]int)", func(a map[string]int) bigslice.Slice { ran(); return aSlice() }),
	mkInv("func(int,Table)", func(n int, a Table) bigslice.Slice { ran(); return aSlice() }),
	mkInv("func(Fn)", func(a Fn) bigslice.Slice { ran(); return aSlice() }),
	mkInv("func(func(int)int)", func(a func(int) int) bigslice.Slice { ran(); return aSlice() }),
	mkInv("func(<-chan int)", func(a <-chan int) bigslice.Slice { ran(); return aSlice() }),
	mkInv("func(chan<- int)", func(a chan<- int) bigslice.Slice { ran(); return aSlice() }),
	mkInv("func(chan int)", func(a chan int) bigslice.Slice { ran(); return aSlice() }),
	mkInv("func(Ch)", func(a Ch) bigslice.Slice { ran(); return aSlice() }),
}

var seven = 7

// named / unnamed pairs of composite types, and directional channels: types that
// are assignable to each other without being the same type.
type IDs []int
type Table map[string]int
type Fn func(int) int
type Ch chan int

var (
	aChan  = make(chan int)
	plainF = func(a int) int { ran(); return a }
)

// invArgs is the alphabet of argument values; argument lists are all tuples of
// length 0..3 over it.
var invArgs = []struct {
	name string
	v    interface{}
}{
	{"1", 1},
	{`"a"`, "a"},
	{"int64(1)", int64(1)},
	{"myInt(1)", myInt(1)},
	{"nil", nil},
	{"*int", &seven},
	{"[]int{1}", []int{1}},
	{"ints{1}", ints{1}},
	{"aSlice", aSlice()},
	{"*myErr", &myErr{}},
	{"2.5", 2.5},
	{"IDs{1}", IDs{1}},
	{"Table{}", Table{"a": 1}},
	{"map[string]int{}", map[string]int{"a": 1}},
	{"Fn", Fn(plainF)},
	{"func(int)int", plainF},
	{"chan int", aChan},
	{"<-chan int", (<-chan int)(aChan)},
	{"chan<- int", (chan<- int)(aChan)},
	{"Ch", Ch(aChan)},
}
