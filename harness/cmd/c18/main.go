// C18 — operator constructors accept exactly the documented type schemas.
//
// Exhaustive cross product (DESIGN.md §5 C18): for every constructor, every
// input slice type of a small universe × every function value of a shared
// universe (or the constructor's own argument universe). Each call is wrapped in
// recover(). An independent predicate per constructor (pred.go, transcribed
// from the doc comments) decides accept / reject / excluded-because-undocumented.
//
//	reject  => the call must panic with a *typecheck.Error whose File:Line is the
//	           harness line that calls the constructor; no user function ran.
//	accept  => no panic; the result has the documented NumOut/Out(i)/Prefix/
//	           NumShard (only what the constructor's doc determines); no user
//	           function ran.
//	excluded=> called and tallied for information only; never a violation.
package main

import (
	"fmt"
	"path/filepath"
	"reflect"
	"runtime"
	"sort"
	"strings"
	"sync/atomic"

	"github.com/grailbio/bigslice"
	"github.com/grailbio/bigslice/sliceio"
	"github.com/grailbio/bigslice/typecheck"
	"verifh/ev"
)

// ---- input slice universe ------------------------------------------------------

type sliceType struct {
	spec sliceSpec
	mk   func() bigslice.Slice
	s    bigslice.Slice
}

func scanFn(shard int, sc *sliceio.Scanner) error { ran(); return nil }

var sliceUniverse = []*sliceType{
	{spec: sliceSpec{"I<int>/p1/sh2", []reflect.Type{tInt}, 1, 2},
		mk: func() bigslice.Slice { return bigslice.Const(2, []int{1, 2, 3}) }},
	{spec: sliceSpec{"S<string>/p1/sh1(readerfunc)", []reflect.Type{tString}, 1, 1},
		mk: func() bigslice.Slice {
			return bigslice.ReaderFunc(1, func(shard int, state int, a []string) (int, error) { ran(); return 0, sliceio.EOF })
		}},
	{spec: sliceSpec{"II<int,int>/p1/sh3", []reflect.Type{tInt, tInt}, 1, 3},
		mk: func() bigslice.Slice { return bigslice.Const(3, []int{1, 2, 3}, []int{4, 5, 6}) }},
	{spec: sliceSpec{"SI<string,int>/p1/sh2", []reflect.Type{tString, tInt}, 1, 2},
		mk: func() bigslice.Slice { return bigslice.Const(2, []string{"a", "b"}, []int{1, 2}) }},
	{spec: sliceSpec{"IS<int,string>/p1/sh2(map)", []reflect.Type{tInt, tString}, 1, 2},
		mk: func() bigslice.Slice {
			return bigslice.Map(bigslice.Const(2, []int{1, 2}), func(a int) (int, string) { ran(); return a, "" })
		}},
	{spec: sliceSpec{"ISF<int,string,float64>/p1/sh1", []reflect.Type{tInt, tString, tFloat}, 1, 1},
		mk: func() bigslice.Slice { return bigslice.Const(1, []int{1}, []string{"a"}, []float64{1}) }},
	{spec: sliceSpec{"SII<string,int,int>/p2/sh2", []reflect.Type{tString, tInt, tInt}, 2, 2},
		mk: func() bigslice.Slice {
			return bigslice.Prefixed(bigslice.Const(2, []string{"a", "b"}, []int{1, 2}, []int{3, 4}), 2)
		}},
	{spec: sliceSpec{"IS<int,string>/p2/sh3", []reflect.Type{tInt, tString}, 2, 3},
		mk: func() bigslice.Slice { return bigslice.Prefixed(bigslice.Const(3, []int{1, 2}, []string{"a", "b"}), 2) }},
	{spec: sliceSpec{"VI<[]int,int>/p1/sh2", []reflect.Type{tInts, tInt}, 1, 2},
		mk: func() bigslice.Slice { return bigslice.Const(2, [][]int{{1}, {2}}, []int{1, 2}) }},
	{spec: sliceSpec{"HI<hkey,int>/p1/sh2", []reflect.Type{tHkey, tInt}, 1, 2},
		mk: func() bigslice.Slice { return bigslice.Const(2, []hkey{{1}, {2}}, []int{1, 2}) }},
	{spec: sliceSpec{"KI<skey,int>/p1/sh2", []reflect.Type{tSkey, tInt}, 1, 2},
		mk: func() bigslice.Slice { return bigslice.Const(2, []skey{{1}, {2}}, []int{1, 2}) }},
	{spec: sliceSpec{"IV<int,[]string>/p1/sh1", []reflect.Type{tInt, tStrings}, 1, 1},
		mk: func() bigslice.Slice { return bigslice.Const(1, []int{1}, [][]string{{"a"}}) }},
	{spec: sliceSpec{"FI<float64,int>/p1/sh2", []reflect.Type{tFloat, tInt}, 1, 2},
		mk: func() bigslice.Slice { return bigslice.Const(2, []float64{1, 2}, []int{1, 2}) }},
	{spec: sliceSpec{"IHS<int,hkey,string>/p2/sh2", []reflect.Type{tInt, tHkey, tString}, 2, 2},
		mk: func() bigslice.Slice {
			return bigslice.Prefixed(bigslice.Const(2, []int{1, 2}, []hkey{{1}, {2}}, []string{"a", "b"}), 2)
		}},
	{spec: sliceSpec{"IVS<int,[]int,string>/p2/sh3", []reflect.Type{tInt, tInts, tString}, 2, 3},
		mk: func() bigslice.Slice {
			return bigslice.Prefixed(bigslice.Const(3, []int{1, 2}, [][]int{{1}, {2}}, []string{"a", "b"}), 2)
		}},
	{spec: sliceSpec{"VI<[]int,int>/p1/sh1", []reflect.Type{tInts, tInt}, 1, 1},
		mk: func() bigslice.Slice { return bigslice.Const(1, [][]int{{1}, {2}}, []int{1, 2}) }},
	{spec: sliceSpec{"TI<traceCtx,int>/p1/sh2", []reflect.Type{tTrace, tInt}, 1, 2},
		mk: func() bigslice.Slice { return bigslice.Const(2, []traceCtx{aTraceCtx, aTraceCtx}, []int{1, 2}) }},
	{spec: sliceSpec{"CS<ctxStruct,string>/p1/sh1", []reflect.Type{tCtxStr, tString}, 1, 1},
		mk: func() bigslice.Slice { return bigslice.Const(1, []ctxStruct{aCtxStruct}, []string{"a"}) }},
	{spec: sliceSpec{"IT<int,traceCtx>/p1/sh2", []reflect.Type{tInt, tTrace}, 1, 2},
		mk: func() bigslice.Slice { return bigslice.Const(2, []int{1, 2}, []traceCtx{aTraceCtx, aTraceCtx}) }},
	{spec: sliceSpec{"NsI<nStr,int>/p1/sh2", []reflect.Type{tNStr, tInt}, 1, 2},
		mk: func() bigslice.Slice { return bigslice.Const(2, []nStr{"a", "b"}, []int{1, 2}) }},
	{spec: sliceSpec{"NiI<nInt,int>/p1/sh2", []reflect.Type{tNInt, tInt}, 1, 2},
		mk: func() bigslice.Slice { return bigslice.Const(2, []nInt{1, 2}, []int{1, 2}) }},
	{spec: sliceSpec{"N64I<nI64,int>/p1/sh1", []reflect.Type{tNI64, tInt}, 1, 1},
		mk: func() bigslice.Slice { return bigslice.Const(1, []nI64{1, 2}, []int{1, 2}) }},
	{spec: sliceSpec{"LI<int64,int>/p1/sh2", []reflect.Type{tInt64, tInt}, 1, 2},
		mk: func() bigslice.Slice { return bigslice.Const(2, []int64{1, 2}, []int{1, 2}) }},
	{spec: sliceSpec{"Z<>/unit(scan)/sh2", nil, 1, 2},
		mk: func() bigslice.Slice { return bigslice.Scan(bigslice.Const(2, []int{1, 2, 3}), scanFn) }},
}

// ---- calling constructors ------------------------------------------------------

type callResult struct {
	out      interface{}
	panicked bool
	pv       interface{}
	file     string
	line     int // line of the constructor call
}

// here returns the caller's file and the line FOLLOWING the call to here: every
// wrapper below calls the constructor on the line right after `here()`.
func here() (string, int) {
	_, file, line, _ := runtime.Caller(1)
	return file, line + 1
}

func (r *callResult) catch() {
	if e := recover(); e != nil {
		r.panicked = true
		r.pv = e
	}
}

func callConst(nshard int, cols []interface{}) (r callResult) {
	defer r.catch()
	r.file, r.line = here()
	r.out = bigslice.Const(nshard, cols...)
	return
}

func callReaderFunc(nshard int, fn interface{}) (r callResult) {
	defer r.catch()
	r.file, r.line = here()
	r.out = bigslice.ReaderFunc(nshard, fn)
	return
}

func callWriterFunc(s bigslice.Slice, fn interface{}) (r callResult) {
	defer r.catch()
	r.file, r.line = here()
	r.out = bigslice.WriterFunc(s, fn)
	return
}

func callMap(s bigslice.Slice, fn interface{}) (r callResult) {
	defer r.catch()
	r.file, r.line = here()
	r.out = bigslice.Map(s, fn)
	return
}

func callFilter(s bigslice.Slice, fn interface{}) (r callResult) {
	defer r.catch()
	r.file, r.line = here()
	r.out = bigslice.Filter(s, fn)
	return
}

func callFlatmap(s bigslice.Slice, fn interface{}) (r callResult) {
	defer r.catch()
	r.file, r.line = here()
	r.out = bigslice.Flatmap(s, fn)
	return
}

func callFold(s bigslice.Slice, fn interface{}) (r callResult) {
	defer r.catch()
	r.file, r.line = here()
	r.out = bigslice.Fold(s, fn)
	return
}

func callHead(s bigslice.Slice, n int) (r callResult) {
	defer r.catch()
	r.file, r.line = here()
	r.out = bigslice.Head(s, n)
	return
}

func callScan(s bigslice.Slice, fn func(int, *sliceio.Scanner) error) (r callResult) {
	defer r.catch()
	r.file, r.line = here()
	r.out = bigslice.Scan(s, fn)
	return
}

func callPrefixed(s bigslice.Slice, prefix int) (r callResult) {
	defer r.catch()
	r.file, r.line = here()
	r.out = bigslice.Prefixed(s, prefix)
	return
}

func callReduce(s bigslice.Slice, fn interface{}) (r callResult) {
	defer r.catch()
	r.file, r.line = here()
	r.out = bigslice.Reduce(s, fn)
	return
}

func callCogroup(ss []bigslice.Slice) (r callResult) {
	defer r.catch()
	r.file, r.line = here()
	r.out = bigslice.Cogroup(ss...)
	return
}

func callReshuffle(s bigslice.Slice) (r callResult) {
	defer r.catch()
	r.file, r.line = here()
	r.out = bigslice.Reshuffle(s)
	return
}

func callRepartition(s bigslice.Slice, fn interface{}) (r callResult) {
	defer r.catch()
	r.file, r.line = here()
	r.out = bigslice.Repartition(s, fn)
	return
}

func callReshard(s bigslice.Slice, nshard int) (r callResult) {
	defer r.catch()
	r.file, r.line = here()
	r.out = bigslice.Reshard(s, nshard)
	return
}

func callFunc(fn interface{}) (r callResult) {
	defer r.catch()
	r.file, r.line = here()
	r.out = bigslice.Func(fn)
	return
}

func callInvocation(fv *bigslice.FuncValue, loc string, args []interface{}) (r callResult) {
	defer r.catch()
	r.file, r.line = here()
	r.out = fv.Invocation(loc, args...)
	return
}

func callApply(fv *bigslice.FuncValue, args []interface{}) (r callResult) {
	defer r.catch()
	r.file, r.line = here()
	r.out = fv.Apply(args...)
	return
}

// ---- bookkeeping ---------------------------------------------------------------

type ctorStats struct {
	Accepted int            `json:"accepted"`
	Rejected int            `json:"rejected"`
	Excluded int            `json:"excluded"`
	Distinct int            `json:"distinct_cases"`
	ExclBy   map[string]int `json:"excluded_by_rule"`
	// what the implementation did on excluded cases (information only)
	ExclObserved map[string]int `json:"excluded_observed"`
	seen         map[string]bool
}

type checker struct {
	r        *ev.Run
	stats    map[string]*ctorStats
	order    []string
	evals    int
	outcomes *ev.Counter
	samples  map[string]int
	// location checking can be switched off per constructor (Apply: the docs of
	// Apply do not say where the error is attributed).
	noLocation map[string]bool
	runsFn     map[string]bool // constructors documented to run the function on accept (Apply)
	// value-argument consistency (see consistent below)
	groups     map[string]*valueGroup
	groupOrder []string
}

// valueGroup collects, for ONE (constructor, input slice type / function
// signature) combination, what the constructor did for each value of an
// int-valued argument that lies inside the documented value range (nshard>=1,
// n>=0). The documented schema is a property of the TYPES only, so the
// accept/reject outcome must be the same for all of them -- whichever way an
// open question of the docs (e.g. R5) is answered, two different outcomes cannot
// both be right.
type valueGroup struct {
	ctor, in, sigClass string
	byOutcome          map[string][]string // observed -> argument values
	site               string
}

func (c *checker) consistent(ctor, in, arg, sigClass string, res callResult) {
	k := ctor + "|" + in
	g := c.groups[k]
	if g == nil {
		g = &valueGroup{ctor: ctor, in: in, sigClass: sigClass, byOutcome: map[string][]string{}}
		c.groups[k] = g
		c.groupOrder = append(c.groupOrder, k)
	}
	observed := "accepted"
	if res.panicked {
		observed = "panic:" + panicClass(res.pv)
	}
	g.byOutcome[observed] = append(g.byOutcome[observed], arg)
	g.site = fmt.Sprintf("%s:%d", res.file, res.line)
}

func (c *checker) judgeGroups() (ngroups, nmulti int) {
	for _, k := range c.groupOrder {
		g := c.groups[k]
		ngroups++
		n := 0
		for _, a := range g.byOutcome {
			n += len(a)
		}
		if n > 1 {
			nmulti++
		}
		if len(g.byOutcome) <= 1 {
			continue
		}
		var parts []string
		for o, a := range g.byOutcome {
			parts = append(parts, o+" for "+strings.Join(a, ","))
		}
		sort.Strings(parts)
		c.r.Violate(fmt.Sprintf("C18/%s/verdict-depends-on-value-argument/%s", g.ctor, g.sigClass),
			fmt.Sprintf("%s(%s, ·): whether the combination is accepted depends on a value-only argument, not on the types: %s",
				g.ctor, g.in, strings.Join(parts, "; ")),
			map[string]interface{}{"constructor": g.ctor, "input": g.in, "outcomes": g.byOutcome, "call_site": g.site})
	}
	return
}

// keyClass is the signature class of a slice type for key-dependent constructors.
func keyClass(s *sliceSpec) string {
	h, hs := s.keyCaps()
	return fmt.Sprintf("prefix=%d/keys-hash=%v/keys-hash+sort=%v/zero-col=%v", s.prefix, h, hs, s.n() == 0)
}

func (c *checker) st(ctor string) *ctorStats {
	s := c.stats[ctor]
	if s == nil {
		s = &ctorStats{ExclBy: map[string]int{}, ExclObserved: map[string]int{}, seen: map[string]bool{}}
		c.stats[ctor] = s
		c.order = append(c.order, ctor)
	}
	return s
}

func typeNames(ts []reflect.Type) string {
	var s []string
	for _, t := range ts {
		s = append(s, t.String())
	}
	return "<" + strings.Join(s, ",") + ">"
}

func panicClass(pv interface{}) string {
	switch e := pv.(type) {
	case *typecheck.Error:
		return "typecheck.Error"
	case runtime.Error:
		_ = e
		return "runtime.Error"
	case error:
		return fmt.Sprintf("%T", pv)
	default:
		return fmt.Sprintf("panic(%T)", pv)
	}
}

func ruleID(rule string) string { return strings.SplitN(rule, " ", 2)[0] }

// judge compares one constructor call with the oracle's verdict.
//
//	ctor: constructor name; in: description of the slice input(s); arg: the
//	function signature / argument description; sigClass: what goes into violation
//	signatures to identify the class of the input (kept coarse so that one defect
//	collapses to few signatures).
func (c *checker) judge(ctor, in, arg, sigClass string, v verdict, res callResult, ranBefore int64) {
	c.evals++
	s := c.st(ctor)
	ranNow := atomic.LoadInt64(&ranCount)
	key := in + "|" + arg
	observed := "accepted"
	if res.panicked {
		observed = "panic:" + panicClass(res.pv)
	}
	c.outcomes.Add(ctor + "/" + v.k.String() + "/" + observed)
	if v.k == vExcluded {
		s.Excluded++
		s.ExclBy[ruleID(v.why)]++
		s.ExclObserved[ruleID(v.why)+"/"+observed]++
		return
	}
	if !s.seen[key] {
		s.seen[key] = true
		s.Distinct++
	}
	detail := map[string]interface{}{"constructor": ctor, "input": in, "argument": arg, "oracle": v.k.String(), "oracle_reason": v.why,
		"observed": observed, "call_site": fmt.Sprintf("%s:%d", res.file, res.line)}
	if res.panicked {
		detail["panic"] = fmt.Sprint(res.pv)
	}
	if c.samples[ctor+v.k.String()] == 0 && len(c.samples) < 8 {
		c.samples[ctor+v.k.String()] = 1
		c.r.Sample(detail)
	}
	switch v.k {
	case vReject:
		s.Rejected++
		if !res.panicked {
			c.r.Violate(fmt.Sprintf("C18/%s/accepted-undocumented-schema/%s", ctor, sigClass),
				fmt.Sprintf("%s(%s, %s) was accepted although its documented schema excludes it: %s", ctor, in, arg, v.why), detail)
			return
		}
		te, ok := res.pv.(*typecheck.Error)
		if !ok {
			c.r.Violate(fmt.Sprintf("C18/%s/reject-not-a-typecheck-error/%s/%s", ctor, panicClass(res.pv), sigClass),
				fmt.Sprintf("%s(%s, %s) does not fit the documented schema (%s) but panics with %s instead of a *typecheck.Error: %v",
					ctor, in, arg, v.why, panicClass(res.pv), res.pv), detail)
			return
		}
		if c.noLocation[ctor] {
			// information only: where the undocumented location points
			if te.File == res.file && te.Line == res.line {
				s.ExclObserved["location-unchecked/at-call-site"]++
			} else {
				s.ExclObserved["location-unchecked/elsewhere"]++
			}
		}
		if !c.noLocation[ctor] && (te.File != res.file || te.Line != res.line) {
			detail["error_location"] = fmt.Sprintf("%s:%d", te.File, te.Line)
			// class: the file the error points at + whether the argument was a function at all
			cls := "at=" + filepath.Base(te.File)
			if strings.HasPrefix(sigClass, "fn/") {
				cls += "/fn"
			} else if strings.HasPrefix(sigClass, "nonfunc=") {
				cls += "/nonfunc"
			} else {
				cls += "/" + sigClass
			}
			c.r.Violate(fmt.Sprintf("C18/%s/typecheck-error-wrong-location/%s", ctor, cls),
				fmt.Sprintf("%s(%s, %s): typecheck error attributed to %s:%d, the caller is at %s:%d", ctor, in, arg, te.File, te.Line, res.file, res.line), detail)
		}
		if ranNow != ranBefore {
			c.r.Violate(fmt.Sprintf("C18/%s/ran-user-function-on-reject/%s", ctor, sigClass),
				fmt.Sprintf("%s(%s, %s): a user function was executed by a rejected constructor call", ctor, in, arg), detail)
		}
	case vAccept:
		s.Accepted++
		if res.panicked {
			c.r.Violate(fmt.Sprintf("C18/%s/rejected-documented-schema/%s/%s", ctor, panicClass(res.pv), sigClass),
				fmt.Sprintf("%s(%s, %s) fits the documented schema but panicked: %v", ctor, in, arg, res.pv), detail)
			return
		}
		if ranNow != ranBefore && !c.runsFn[ctor] {
			c.r.Violate(fmt.Sprintf("C18/%s/ran-user-function-on-accept/%s", ctor, sigClass),
				fmt.Sprintf("%s(%s, %s): a user function was executed by the constructor", ctor, in, arg), detail)
		}
		if sl, ok := res.out.(bigslice.Slice); ok && (v.exp.hasCols || v.exp.prefix >= 0 || v.exp.nshard >= 0) {
			if msg := shapeMismatch(sl, v.exp); msg != "" {
				detail["shape"] = msg
				c.r.Violate(fmt.Sprintf("C18/%s/wrong-result-shape/%s/%s", ctor, strings.SplitN(msg, ":", 2)[0], sigClass),
					fmt.Sprintf("%s(%s, %s) returned a slice with %s", ctor, in, arg, msg), detail)
			}
		}
	}
}

// shapeMismatch compares the documented shape with the returned slice.
func shapeMismatch(sl bigslice.Slice, e expect) (msg string) {
	defer func() {
		if p := recover(); p != nil {
			msg = fmt.Sprintf("panic: inspecting the result panicked: %v", p)
		}
	}()
	if sl == nil || (reflect.ValueOf(sl).Kind() == reflect.Ptr && reflect.ValueOf(sl).IsNil()) {
		return "nil: nil slice returned"
	}
	if e.hasCols {
		if sl.NumOut() != len(e.cols) {
			return fmt.Sprintf("NumOut: NumOut()=%d, documented %d %s", sl.NumOut(), len(e.cols), typeNames(e.cols))
		}
		for i, t := range e.cols {
			if sl.Out(i) != t {
				return fmt.Sprintf("Out: Out(%d)=%s, documented %s", i, sl.Out(i), t)
			}
		}
	}
	if e.prefix >= 0 && sl.Prefix() != e.prefix {
		return fmt.Sprintf("Prefix: Prefix()=%d, documented %d", sl.Prefix(), e.prefix)
	}
	if e.nshard >= 0 && sl.NumShard() != e.nshard {
		return fmt.Sprintf("NumShard: NumShard()=%d, documented %d", sl.NumShard(), e.nshard)
	}
	return ""
}

// fnClass is the class of a function value used in signatures: coarse (arity
// shape and special forms), so that one defect collapses to a few signatures.
func fnClass(fi *fnInfo) string {
	if !fi.isFunc {
		t := reflect.TypeOf(fi.v)
		if t == nil {
			return "nonfunc=untyped-nil"
		}
		return "nonfunc=" + t.Kind().String()
	}
	s := fmt.Sprintf("fn/in=%d/out=%d", len(fi.in), len(fi.out))
	for _, p := range fi.in {
		if p == tCtx {
			s += "/ctx"
			break
		}
	}
	if fi.variadic {
		s += "/variadic"
	}
	if fi.isNil {
		s += "/nilfunc"
	}
	return s
}

// cogroupClass is the signature class of a Cogroup argument list: number of
// slices, whether prefixes / key types agree, capabilities of the first slice's
// key columns, presence of a zero-column slice.
func cogroupClass(ss []*sliceSpec) string {
	if len(ss) == 0 {
		return "n=0"
	}
	samePrefix, sameKeys, zero := true, true, false
	for _, s := range ss {
		if s.n() == 0 {
			zero = true
		}
		if s.prefix != ss[0].prefix {
			samePrefix = false
		}
	}
	if samePrefix && !zero {
		for _, s := range ss[1:] {
			if !sameTypes(s.cols[:s.prefix], ss[0].cols[:ss[0].prefix]) {
				sameKeys = false
			}
		}
	}
	h, hs := ss[0].keyCaps()
	return fmt.Sprintf("n=%d/zero-col=%v/same-prefix=%v/same-keytypes=%v/key0-hash=%v/key0-hash+sort=%v", len(ss), zero, samePrefix, sameKeys, h, hs)
}

// sameArgs reports whether two argument lists hold the same values (reference
// kinds by identity: func values are never DeepEqual).
func sameArgs(a, b []interface{}) bool {
	if len(a) != len(b) {
		return false
	}
	for i := range a {
		va, vb := reflect.ValueOf(a[i]), reflect.ValueOf(b[i])
		if va.IsValid() != vb.IsValid() {
			return false
		}
		if !va.IsValid() {
			continue
		}
		if va.Type() != vb.Type() {
			return false
		}
		switch va.Kind() {
		case reflect.Func, reflect.Chan, reflect.Map, reflect.Slice, reflect.Ptr, reflect.UnsafePointer:
			if va.Pointer() != vb.Pointer() {
				return false
			}
		default:
			if !reflect.DeepEqual(a[i], b[i]) {
				return false
			}
		}
	}
	return true
}

// argClass is the signature class of an Invocation/Apply argument list.
func argClass(f invFunc, nparams int, args []interface{}) string {
	hasNil := false
	for _, a := range args {
		if a == nil {
			hasNil = true
		}
	}
	switch {
	case len(args) < nparams:
		return fmt.Sprintf("arity=too-few/untyped-nil=%v", hasNil)
	case len(args) > nparams:
		return fmt.Sprintf("arity=too-many/untyped-nil=%v", hasNil)
	}
	return fmt.Sprintf("func=%s/untyped-nil=%v", f.name, hasNil)
}

func tuples(n, maxLen int, f func(idx []int)) {
	var rec func(idx []int)
	rec = func(idx []int) {
		f(idx)
		if len(idx) == maxLen {
			return
		}
		for i := 0; i < n; i++ {
			rec(append(append([]int{}, idx...), i))
		}
	}
	rec(nil)
}

func main() {
	r := ev.Start("C18", "exploration")
	c := &checker{r: r, stats: map[string]*ctorStats{}, outcomes: ev.NewCounter(), samples: map[string]int{},
		noLocation: map[string]bool{"Apply": true}, runsFn: map[string]bool{"Apply": true}, groups: map[string]*valueGroup{}}

	// Build the input slices; their own construction is part of the property
	// (they all fit the documented schemas).
	for _, st := range sliceUniverse {
		func() {
			defer func() {
				if e := recover(); e != nil {
					r.Violate("C18/input-construction/"+st.spec.name, fmt.Sprintf("building input slice %s panicked: %v", st.spec.name, e), nil)
				}
			}()
			st.s = st.mk()
		}()
	}
	var inputs []*sliceType
	for _, st := range sliceUniverse {
		if st.s != nil {
			inputs = append(inputs, st)
		}
	}
	if atomic.LoadInt64(&ranCount) != 0 {
		r.Violate("C18/input-construction/ran-user-function", "a user function ran while the input slices were constructed", nil)
	}

	var fns []*fnInfo
	for _, f := range fnUniverse {
		fns = append(fns, describeFn(f))
	}

	// ---- constructors taking (slice, function)
	type sf struct {
		name string
		pred func(*sliceSpec, *fnInfo) verdict
		call func(bigslice.Slice, interface{}) callResult
	}
	for _, k := range []sf{
		{"Map", predMap, callMap},
		{"Filter", predFilter, callFilter},
		{"Flatmap", predFlatmap, callFlatmap},
		{"Fold", predFold, callFold},
		{"Reduce", predReduce, callReduce},
		{"Repartition", predRepartition, callRepartition},
		{"WriterFunc", predWriterFunc, callWriterFunc},
	} {
		for _, in := range inputs {
			for _, fi := range fns {
				v := k.pred(&in.spec, fi)
				before := atomic.LoadInt64(&ranCount)
				res := k.call(in.s, fi.v)
				c.judge(k.name, in.spec.name, fi.name, fnClass(fi), v, res, before)
			}
		}
	}

	// ---- ReaderFunc: nshard × function
	for _, nshard := range []int{1, 2, 3} {
		for _, fi := range fns {
			v := predReaderFunc(nshard, fi)
			before := atomic.LoadInt64(&ranCount)
			res := callReaderFunc(nshard, fi.v)
			c.judge("ReaderFunc", fmt.Sprintf("nshard=%d", nshard), fi.name, fnClass(fi), v, res, before)
			c.consistent("ReaderFunc", fi.name, fmt.Sprintf("nshard=%d", nshard), fnClass(fi), res)
		}
	}

	// ---- Func: function
	for _, fi := range fns {
		v := predFunc(fi)
		before := atomic.LoadInt64(&ranCount)
		res := callFunc(fi.v)
		c.judge("Func", "-", fi.name, fnClass(fi), v, res, before)
		if v.k == vAccept && !res.panicked {
			if fv, _ := res.out.(*bigslice.FuncValue); fv == nil {
				r.Violate("C18/Func/nil-result/"+fnClass(fi), "Func returned nil for "+fi.name, nil)
			} else if fv.NumIn() != len(fi.in) {
				r.Violate("C18/Func/wrong-NumIn/"+fnClass(fi), fmt.Sprintf("Func(%s).NumIn()=%d", fi.name, fv.NumIn()), nil)
			}
		}
	}

	// ---- Const: nshard × column tuples of length 0..3
	constCols := []struct {
		name string
		v    interface{}
	}{
		{"[]int{1,2}", []int{1, 2}},
		{`[]string{"a","b"}`, []string{"a", "b"}},
		{"[][]int{{1},{2}}", [][]int{{1}, {2}}},
		{"[]hkey{..2}", []hkey{{1}, {2}}},
		{"nil", nil},
		{"7", 7},
		{"[2]int{1,2}", [2]int{1, 2}},
		{"&[]int{1,2}", &[]int{1, 2}},
		{"[]int(nil)", []int(nil)},
	}
	for _, nshard := range []int{1, 2, 3} {
		tuples(len(constCols), 3, func(idx []int) {
			var cols []interface{}
			var names, classes []string
			for _, i := range idx {
				cols = append(cols, constCols[i].v)
				names = append(names, constCols[i].name)
			}
			// signature class: kind of the first column that is not a slice
			for _, col := range cols {
				t := reflect.TypeOf(col)
				k := "untyped-nil"
				if t != nil {
					k = t.Kind().String()
				}
				if k != "slice" {
					classes = append(classes, k)
					break
				}
			}
			v := predConst(nshard, cols)
			before := atomic.LoadInt64(&ranCount)
			res := callConst(nshard, cols)
			c.judge("Const", fmt.Sprintf("nshard=%d", nshard), "("+strings.Join(names, ", ")+")", "first-nonslice-col="+strings.Join(classes, ""), v, res, before)
			c.consistent("Const", "("+strings.Join(names, ", ")+")", fmt.Sprintf("nshard=%d", nshard), "first-nonslice-col="+strings.Join(classes, ""), res)
		})
	}

	// ---- Prefixed, Head, Scan, Reshuffle, Reshard: slice × small ints
	for _, in := range inputs {
		for _, p := range []int{-1, 0, 1, 2, 3, 4} {
			v := predPrefixed(&in.spec, p)
			before := atomic.LoadInt64(&ranCount)
			res := callPrefixed(in.s, p)
			c.judge("Prefixed", in.spec.name, fmt.Sprintf("prefix=%d", p), fmt.Sprintf("ncol=%d/prefix=%d", in.spec.n(), p), v, res, before)
		}
		for _, n := range []int{-1, 0, 1, 2, 3, 7} {
			v := predHead(&in.spec, n)
			before := atomic.LoadInt64(&ranCount)
			res := callHead(in.s, n)
			c.judge("Head", in.spec.name, fmt.Sprintf("n=%d", n), in.spec.name, v, res, before)
			if n >= 0 {
				c.consistent("Head", in.spec.name, fmt.Sprintf("n=%d", n), keyClass(&in.spec), res)
			}
		}
		for _, nilFn := range []bool{false, true} {
			fn := scanFn
			if nilFn {
				fn = nil
			}
			v := predScan(&in.spec, nilFn)
			before := atomic.LoadInt64(&ranCount)
			res := callScan(in.s, fn)
			c.judge("Scan", in.spec.name, fmt.Sprintf("nilfn=%v", nilFn), in.spec.name, v, res, before)
		}
		{
			v := predReshuffle(&in.spec)
			before := atomic.LoadInt64(&ranCount)
			res := callReshuffle(in.s)
			c.judge("Reshuffle", in.spec.name, "-", in.spec.name, v, res, before)
		}
		// requested shard counts include every input's current count (1, 2, 3):
		// the "already has that many shards" no-op is part of the cross product.
		for _, n := range []int{0, 1, 2, 3, 5} {
			v := predReshard(&in.spec, n)
			before := atomic.LoadInt64(&ranCount)
			res := callReshard(in.s, n)
			c.judge("Reshard", in.spec.name, fmt.Sprintf("nshard=%d", n), in.spec.name, v, res, before)
			if n >= 1 {
				same := "differs-from-current"
				if n == in.spec.nshard {
					same = "equals-current"
				}
				c.consistent("Reshard", in.spec.name, fmt.Sprintf("nshard=%d(%s)", n, same), keyClass(&in.spec), res)
			}
		}
	}

	// ---- Cogroup: all tuples of 0..3 input slices
	tuples(len(inputs), 3, func(idx []int) {
		var ss []bigslice.Slice
		var specs []*sliceSpec
		var names []string
		for _, i := range idx {
			ss = append(ss, inputs[i].s)
			specs = append(specs, &inputs[i].spec)
			names = append(names, inputs[i].spec.name)
		}
		v := predCogroup(specs)
		before := atomic.LoadInt64(&ranCount)
		res := callCogroup(ss)
		c.judge("Cogroup", "("+strings.Join(names, ", ")+")", "-", cogroupClass(specs), v, res, before)
	})

	// ---- Invocation / Apply: func × argument tuples of length 0..3
	for _, f := range invFuncs {
		fi := describeFn(f.fn)
		tuples(len(invArgs), 3, func(idx []int) {
			var args []interface{}
			var names []string
			for _, i := range idx {
				args = append(args, invArgs[i].v)
				names = append(names, invArgs[i].name)
			}
			arg := "(" + strings.Join(names, ", ") + ")"
			v := predInvocation(fi, args)
			before := atomic.LoadInt64(&ranCount)
			res := callInvocation(f.fv, "loc", args)
			c.judge("Invocation", f.name, arg, argClass(f, len(fi.in), args), v, res, before)
			if v.k == vAccept && !res.panicked {
				inv := res.out.(bigslice.Invocation)
				if !sameArgs(inv.Args, args) {
					r.Violate("C18/Invocation/args-not-carried/func="+f.name, fmt.Sprintf("Invocation%s of %s carries Args %v", arg, f.name, inv.Args), nil)
				}
				if inv.Location != "loc" {
					r.Violate("C18/Invocation/location-not-carried/func="+f.name, fmt.Sprintf("Invocation.Location=%q", inv.Location), nil)
				}
			}
			// Apply: same argument rule; on accept the function is documented to be
			// invoked ("Apply invokes the function f"); the error location of Apply is
			// not documented and is not checked.
			before = atomic.LoadInt64(&ranCount)
			res = callApply(f.fv, args)
			c.judge("Apply", f.name, arg, argClass(f, len(fi.in), args), v, res, before)
			if v.k == vAccept && !res.panicked {
				if atomic.LoadInt64(&ranCount) != before+1 {
					r.Violate("C18/Apply/function-not-invoked-once/func="+f.name, fmt.Sprintf("Apply%s of %s ran the function %d times", arg, f.name, atomic.LoadInt64(&ranCount)-before), nil)
				}
				if sl, _ := res.out.(bigslice.Slice); sl == nil {
					r.Violate("C18/Apply/nil-result/func="+f.name, "Apply returned nil", nil)
				}
			}
		})
	}

	ngroups, nmulti := c.judgeGroups()

	// ---- coverage
	per := map[string]interface{}{}
	nontrivial := 0
	totalAcc, totalRej, totalExcl := 0, 0, 0
	var bothClasses, oneClass []string
	for _, name := range c.order {
		s := c.stats[name]
		per[name] = s
		totalAcc += s.Accepted
		totalRej += s.Rejected
		totalExcl += s.Excluded
		if s.Accepted > 0 && s.Rejected > 0 {
			nontrivial += s.Distinct
			bothClasses = append(bothClasses, name)
		} else {
			oneClass = append(oneClass, name)
		}
	}
	for _, name := range c.order {
		s := c.stats[name]
		fmt.Printf("  %-12s accepted=%-5d rejected=%-5d excluded=%-5d distinct=%d\n", name, s.Accepted, s.Rejected, s.Excluded, s.Distinct)
	}
	r.Finish(ev.Coverage{
		"evaluations":         c.evals,
		"distinct_nontrivial": nontrivial,
		"rule": "For each constructor the full cross product of its argument universe: (slice,function) constructors = " +
			fmt.Sprintf("%d input slice types x %d function values", len(inputs), len(fns)) +
			"; ReaderFunc = nshard{1,2,3} x function values; Func = function values; Const = nshard{1,2,3} x all column tuples of length 0..3 over 9 column values; " +
			"Prefixed/Head/Scan/Reshuffle/Reshard = slice types x small ints (Reshard's requested counts {0,1,2,3,5} contain every input's current count 1..3, so the no-op case is crossed with every key type; Prefixed {-1..4} contains every input's current prefix); Cogroup = all tuples of 0..3 slice types; " +
			fmt.Sprintf("Invocation/Apply = %d Funcs x all argument tuples of length 0..3 over %d values (named/unnamed pairs of slice, map, func and chan types in both directions, directional channels). ", len(invFuncs), len(invArgs)) +
			"Value-argument consistency: for Reshard (nshard>=1), Head (n>=0), Const and ReaderFunc (nshard) the observed accept/reject outcome of one (constructor, types) combination must not depend on the int value -- this also binds the cases excluded under R5/R0, whose verdict the docs leave open but which cannot be both in and out of the schema. " +
			"Quick and thorough tiers are identical (the space is small). An evaluation is one constructor call under recover() compared with the doc-derived predicate. " +
			"distinct_nontrivial = distinct non-excluded (constructor, input, argument-signature) cases of constructors for which BOTH verdict classes (accept and reject) occurred; " +
			"Head, Scan, Reshuffle and Reshard have documented schemas without a reject class and are evaluated but not counted. " +
			"Excluded a priori (documentation open): " + strings.Join(openRules, "; ") +
			". Apply is judged on verdict, error type and no-run-on-reject only (its error location is undocumented).",
		"per_constructor":                per,
		"accepted":                       totalAcc,
		"rejected":                       totalRej,
		"excluded":                       totalExcl,
		"constructors_with_both_classes": bothClasses,
		"constructors_with_one_class":    oneClass,
		"distinct_outcomes":              c.outcomes.Distinct(),
		"outcomes":                       c.outcomes.Keys(),
		"input_slice_types":              len(inputs),
		"function_values":                len(fns),
		"value_consistency_groups":       ngroups,
		"value_consistency_groups_multi": nmulti,
	})
}

var openRules = []string{oDegenerate, oAssignable, oVariadic, oCtxPos, oCtxCol, oNilFunc, oKeyOps, oFoldPrefix, oNamedKind, oValueLevel}
