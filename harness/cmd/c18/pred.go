package main

// The oracle: one predicate per constructor, transcribed from the constructor's
// DOC COMMENT (and the package documentation in doc.go for the context.Context
// rule). None of these look at bigslice's implementation or call into it; they
// operate on the harness's own description of the input slice type (sliceSpec)
// and on the reflect.Type of the function value.
//
// Every predicate returns accept (with the documented shape of the result),
// reject, or excluded. "excluded" = the documentation genuinely does not decide
// the case; such cases are taken out of the universe a priori (rule list: see
// openRules in main.go) and are never turned into an expectation.
//
// Ordering inside every predicate: definite reasons to reject first, then
// reasons for which the docs are open, then accept.

import (
	"fmt"
	"reflect"
)

type vkind int

const (
	vAccept vkind = iota
	vReject
	vExcluded
)

func (k vkind) String() string { return [...]string{"accept", "reject", "excluded"}[k] }

// expect is the documented shape of the result; fields that the documentation of
// the constructor does not determine stay unchecked.
type expect struct {
	cols    []reflect.Type
	hasCols bool
	prefix  int // -1: not documented
	nshard  int // -1: not documented
}

type verdict struct {
	k   vkind
	why string
	exp expect
}

func accept(e expect) verdict { return verdict{k: vAccept, exp: e} }
func reject(why string, a ...interface{}) verdict {
	return verdict{k: vReject, why: fmt.Sprintf(why, a...)}
}
func excluded(rule string) verdict { return verdict{k: vExcluded, why: rule} }

// Open-case rules (decided from the documentation before looking at behaviour).
const (
	oDegenerate = "R0 degenerate instantiation (n=0 columns / 0 residual columns / 0 results / 0 slices) of an n-ary schematic"
	oAssignable = "R1 slice column type assignable to, but not identical with, the parameter type of a combinator's function ('must match' is not defined further). Not applied to Invocation/Apply: 'arguments do not match in type' is read as: the argument's type is the parameter type, or implements it when the parameter is of interface type"
	oVariadic   = "R2 variadic function (also as the target of Invocation/Apply): constructor docs are silent; excluded when either the literal ([]T last parameter) or a Go-call reading (0..4 variadic arguments) would fit, rejected when no reading fits"
	oCtxPos     = "R3 context.Context parameter that is not the single leading parameter (doc.go does not fix the position)"
	oCtxCol     = "R9 single leading context.Context parameter where the function would also fit if that parameter were read as the parameter of a first slice column whose type is (assignable to) context.Context"
	oNilFunc    = "R4 nil value of a function type that fits the schema (value-level, not a type schema)"
	oKeyOps     = "R5 key capability not fixed by the docs (Reduce/Reshuffle/Reshard say nothing about key types; 'partitionable' for Fold/Cogroup refers to the non-existent Keyer doc: only 'cannot be hashed' => not partitionable and int/string (Fold) resp. hashable+sortable (Cogroup) => partitionable are taken as decided)"
	oFoldPrefix = "R6 Fold on a slice with prefix>1 (BUG note: grouping not supported; behaviour undocumented)"
	oNamedKind  = "R7 named type whose kind fits (e.g. type myBool bool for 'a single boolean value'; a type implementing Slice for 'a single Slice value')"
	oValueLevel = "R8 value-level arguments outside the type schema (nshard<1, unequal column lengths, Head n<0, Prefixed prefix==0, nil scan func, untyped nil argument for a nil-able parameter)"
)

// ---- description of inputs ---------------------------------------------------

type sliceSpec struct {
	name   string
	cols   []reflect.Type
	prefix int
	nshard int
}

func (s *sliceSpec) n() int { return len(s.cols) }

// keyCaps reports whether all prefix columns can be hashed / hashed and sorted.
func (s *sliceSpec) keyCaps() (allHash, allHashSort bool) {
	allHash, allHashSort = true, true
	for i := 0; i < s.prefix && i < len(s.cols); i++ {
		c := caps[s.cols[i]]
		if !c.hash {
			allHash = false
		}
		if !c.hash || !c.sort {
			allHashSort = false
		}
	}
	return
}

type fnInfo struct {
	v        interface{}
	name     string
	isFunc   bool
	isNil    bool
	in       []reflect.Type
	out      []reflect.Type
	variadic bool
}

func describeFn(v interface{}) *fnInfo {
	fi := &fnInfo{v: v}
	t := reflect.TypeOf(v)
	if t == nil {
		fi.name = "<untyped nil>"
		return fi
	}
	fi.name = t.String()
	if t.Kind() != reflect.Func {
		return fi
	}
	fi.isFunc = true
	fi.isNil = reflect.ValueOf(v).IsNil()
	for i := 0; i < t.NumIn(); i++ {
		fi.in = append(fi.in, t.In(i))
	}
	for i := 0; i < t.NumOut(); i++ {
		fi.out = append(fi.out, t.Out(i))
	}
	fi.variadic = t.IsVariadic()
	return fi
}

type mres int

const (
	mExact mres = iota
	mAssignable
	mMismatch
)

// match compares a parameter list with the list of types it must take.
func match(params, want []reflect.Type) mres {
	if len(params) != len(want) {
		return mMismatch
	}
	r := mExact
	for i := range params {
		if params[i] == want[i] {
			continue
		}
		if want[i].AssignableTo(params[i]) {
			r = mAssignable
			continue
		}
		return mMismatch
	}
	return r
}

func sameTypes(a, b []reflect.Type) bool {
	if len(a) != len(b) {
		return false
	}
	for i := range a {
		if a[i] != b[i] {
			return false
		}
	}
	return true
}

// combinatorFn applies the rules common to all user functions handed to
// combinators: it must be a function; doc.go: "Functions provided to the various
// bigslice combinators (e.g., bigslice.Map) may take an additional argument of
// type context.Context" (taken as: a single leading one is documented; any
// other placement is open); variadics (R2).
func combinatorFn(fi *fnInfo, base func(params, results []reflect.Type) verdict) verdict {
	if !fi.isFunc {
		return reject("not a function: %s", fi.name)
	}
	if fi.isNil {
		// R4: a nil function of a type that does not fit is rejected on its type
		// alone; only a nil function of a fitting type is value-level.
		live := *fi
		live.isNil = false
		if v := combinatorFn(&live, base); v.k == vReject {
			return v
		}
		return excluded(oNilFunc)
	}
	params := fi.in
	nctx := 0
	for _, p := range params {
		if p == tCtx {
			nctx++
		}
	}
	// The optional context argument is "of type context.Context": exactly that
	// type. A leading parameter of another type that merely implements
	// context.Context (a named interface embedding it, a struct carrying its
	// methods) is an ordinary column parameter.
	switch {
	case nctx == 0:
		return plainFn(fi, params, base)
	case nctx == 1 && params[0] == tCtx:
		v := plainFn(fi, params[1:], base)
		if v.k == vReject {
			// R9: the same parameter read as the parameter of a first column
			// whose type is (assignable to) context.Context.
			if v2 := plainFn(fi, params, base); v2.k != vReject {
				return excluded(oCtxCol)
			}
		}
		return v
	default:
		return excluded(oCtxPos)
	}
}

// plainFn: the function rules once the context question is settled.
func plainFn(fi *fnInfo, params []reflect.Type, base func(params, results []reflect.Type) verdict) verdict {
	if !fi.variadic {
		return base(params, fi.out)
	}
	// R2: literal reading, and Go-call readings with 0..4 variadic arguments.
	last := params[len(params)-1]
	cands := [][]reflect.Type{params}
	for k := 0; k <= 4; k++ {
		c := append([]reflect.Type{}, params[:len(params)-1]...)
		for j := 0; j < k; j++ {
			c = append(c, last.Elem())
		}
		cands = append(cands, c)
	}
	for _, c := range cands {
		if v := base(c, fi.out); v.k != vReject {
			return excluded(oVariadic)
		}
	}
	return reject("variadic function that fits under no reading: %s", fi.name)
}

// ---- Map ---------------------------------------------------------------------
// "The type of slice must match the arguments of the function fn. The type of
// the returned slice is the set of columns returned by fn. The returned slice
// matches the input slice's sharding [...]
//
//	Map(Slice<t1, t2, ..., tn>, func(v1 t1, v2 t2, ..., vn tn) (r1, r2, ..., rn)) Slice<r1, r2, ..., rn>"
func predMap(s *sliceSpec, fi *fnInfo) verdict {
	return combinatorFn(fi, func(params, results []reflect.Type) verdict {
		m := match(params, s.cols)
		if m == mMismatch {
			return reject("parameters do not match the slice columns")
		}
		if len(results) == 0 || s.n() == 0 {
			return excluded(oDegenerate)
		}
		if m == mAssignable {
			return excluded(oAssignable)
		}
		return accept(expect{cols: results, hasCols: true, prefix: -1, nshard: s.nshard})
	})
}

// ---- Filter ------------------------------------------------------------------
// "The predicate function should receive each column of slice and return a
// single boolean value.
//
//	Filter(Slice<t1, t2, ..., tn>, func(t1, t2, ..., tn) bool) Slice<t1, t2, ..., tn>"
func predFilter(s *sliceSpec, fi *fnInfo) verdict {
	return combinatorFn(fi, func(params, results []reflect.Type) verdict {
		m := match(params, s.cols)
		if m == mMismatch {
			return reject("parameters do not match the slice columns")
		}
		if len(results) != 1 || results[0].Kind() != reflect.Bool {
			return reject("does not return a single boolean value")
		}
		if results[0] != tBool {
			return excluded(oNamedKind)
		}
		if s.n() == 0 {
			return excluded(oDegenerate)
		}
		if m == mAssignable {
			return excluded(oAssignable)
		}
		return accept(expect{cols: s.cols, hasCols: true, prefix: -1, nshard: -1})
	})
}

// ---- Flatmap -----------------------------------------------------------------
// "the function fn should be of the form:
//
//	func(in1 inType1, in2 inType2, ...) (out1 []outType1, out2 []outType2)
//	Flatmap(Slice<t1, ..., tn>, func(v1 t1, ..., vn tn) ([]r1, []r2, ..., []rn)) Slice<r1, r2, ..., rn>"
func predFlatmap(s *sliceSpec, fi *fnInfo) verdict {
	return combinatorFn(fi, func(params, results []reflect.Type) verdict {
		m := match(params, s.cols)
		if m == mMismatch {
			return reject("parameters do not match the slice columns")
		}
		var elems []reflect.Type
		for _, r := range results {
			if r.Kind() != reflect.Slice {
				return reject("result %s is not a slice", r)
			}
			elems = append(elems, r.Elem())
		}
		if len(results) == 0 || s.n() == 0 {
			return excluded(oDegenerate)
		}
		if m == mAssignable {
			return excluded(oAssignable)
		}
		return accept(expect{cols: elems, hasCols: true, prefix: -1, nshard: -1})
	})
}

// ---- Fold --------------------------------------------------------------------
// "aggregates values by the first column [...]. For an input slice
// Slice<t1, t2, ..., tn>, Fold requires that the provided accumulator function
// follow the form:  func(accum acctype, v2 t2, ..., vn tn) acctype
// Fold requires that the first column of the slice is partitionable. [...]
//
//	Fold(Slice<t1, ..., tn>, func(accum acctype, v2 t2, ..., vn tn) acctype) Slice<t1, acctype>
//
// BUG(marius): Fold does not yet support slice grouping"
func predFold(s *sliceSpec, fi *fnInfo) verdict {
	if fi.isFunc && s.prefix > 1 {
		return excluded(oFoldPrefix)
	}
	return combinatorFn(fi, func(params, results []reflect.Type) verdict {
		if s.n() == 0 {
			return reject("no first column to aggregate by")
		}
		if !caps[s.cols[0]].hash {
			return reject("first column %s cannot be hashed, hence is not partitionable", s.cols[0])
		}
		if len(results) != 1 {
			return reject("accumulator must return exactly acctype")
		}
		want := append([]reflect.Type{results[0]}, s.cols[1:]...)
		m := match(params, want)
		if m == mMismatch {
			return reject("parameters are not (acctype, t2, ..., tn)")
		}
		if s.n() == 1 {
			return excluded(oDegenerate)
		}
		if s.cols[0] != tInt && s.cols[0] != tString {
			return excluded(oKeyOps)
		}
		if m == mAssignable {
			return excluded(oAssignable)
		}
		return accept(expect{cols: []reflect.Type{s.cols[0], results[0]}, hasCols: true, prefix: -1, nshard: -1})
	})
}

// ---- Reduce ------------------------------------------------------------------
// "Reduce(Slice<k, v>, func(v1, v2 v) v) Slice<k, v> [...] The slice to be
// reduced must have exactly 1 residual column: that is, its prefix must leave
// just one column as the value column to be aggregated."
func predReduce(s *sliceSpec, fi *fnInfo) verdict {
	if s.n()-s.prefix != 1 {
		return reject("slice has %d residual columns, not 1", s.n()-s.prefix)
	}
	return combinatorFn(fi, func(params, results []reflect.Type) verdict {
		v := s.cols[s.n()-1]
		m := match(params, []reflect.Type{v, v})
		if m == mMismatch || len(results) != 1 {
			return reject("not func(v, v) v")
		}
		rm := mExact
		if results[0] != v {
			if !results[0].AssignableTo(v) {
				return reject("not func(v, v) v")
			}
			rm = mAssignable
		}
		if _, hs := s.keyCaps(); !hs {
			return excluded(oKeyOps)
		}
		if m == mAssignable || rm == mAssignable {
			return excluded(oAssignable)
		}
		return accept(expect{cols: s.cols, hasCols: true, prefix: -1, nshard: -1})
	})
}

// ---- Repartition -------------------------------------------------------------
// "Repartition(Slice<t1, ..., tn> func(nshard int, v1 t1, ..., vn tn) int) Slice<t1, ..., tn>"
func predRepartition(s *sliceSpec, fi *fnInfo) verdict {
	return combinatorFn(fi, func(params, results []reflect.Type) verdict {
		want := append([]reflect.Type{tInt}, s.cols...)
		m := match(params, want)
		if m == mMismatch {
			return reject("parameters are not (nshard int, t1, ..., tn)")
		}
		if len(results) != 1 || results[0] != tInt {
			return reject("does not return int")
		}
		if s.n() == 0 {
			return excluded(oDegenerate)
		}
		if m == mAssignable {
			return excluded(oAssignable)
		}
		return accept(expect{cols: s.cols, hasCols: true, prefix: -1, nshard: -1})
	})
}

// ---- ReaderFunc --------------------------------------------------------------
// "The function read must be of the form:
//
//	func(shard int, state stateType, col1 []col1Type, ..., colN []colNType) (int, error)
//
// This returns a slice of the form: Slice<col1Type, col2Type, ..., colNType>"
func predReaderFunc(nshard int, fi *fnInfo) verdict {
	return combinatorFn(fi, func(params, results []reflect.Type) verdict {
		if len(params) < 2 {
			return reject("fewer than (shard, state) parameters")
		}
		if params[0] != tInt {
			return reject("first parameter is not shard int")
		}
		if !sameTypes(results, []reflect.Type{tInt, tError}) {
			return reject("does not return (int, error)")
		}
		var elems []reflect.Type
		for _, p := range params[2:] {
			if p.Kind() != reflect.Slice {
				return reject("column parameter %s is not a slice", p)
			}
			elems = append(elems, p.Elem())
		}
		if len(elems) == 0 {
			return excluded(oDegenerate)
		}
		return accept(expect{cols: elems, hasCols: true, prefix: -1, nshard: nshard})
	})
}

// ---- WriterFunc --------------------------------------------------------------
// "returns a Slice that is functionally equivalent to the input Slice [...]
// The write function must be of the form:
//
//	func(shard int, state stateType, err error, col1 []col1Type, ..., colN []colNType) error
//
// where the input slice is of the form: Slice<col1Type, ..., colNType>"
func predWriterFunc(s *sliceSpec, fi *fnInfo) verdict {
	return combinatorFn(fi, func(params, results []reflect.Type) verdict {
		if len(params) != 3+s.n() {
			return reject("wrong number of parameters")
		}
		if params[0] != tInt {
			return reject("first parameter is not shard int")
		}
		if params[2] != tError {
			return reject("third parameter is not err error")
		}
		for i, c := range s.cols {
			if params[3+i] != reflect.SliceOf(c) {
				return reject("column parameter %d is not []%s", i, c)
			}
		}
		if !sameTypes(results, []reflect.Type{tError}) {
			return reject("does not return error")
		}
		if s.n() == 0 {
			return excluded(oDegenerate)
		}
		return accept(expect{cols: s.cols, hasCols: true, prefix: s.prefix, nshard: s.nshard})
	})
}

// ---- Const -------------------------------------------------------------------
// "Each column of the Slice should be provided as a Go slice of the column's
// type. The value is split into nshard shards."
func predConst(nshard int, columns []interface{}) verdict {
	var elems []reflect.Type
	n := -1
	unequal := false
	for _, c := range columns {
		t := reflect.TypeOf(c)
		if t == nil || t.Kind() != reflect.Slice {
			return reject("column %v is not a Go slice", t)
		}
		elems = append(elems, t.Elem())
		l := reflect.ValueOf(c).Len()
		if n >= 0 && l != n {
			unequal = true
		}
		n = l
	}
	if len(columns) == 0 {
		return excluded(oDegenerate)
	}
	if unequal || nshard < 1 {
		return excluded(oValueLevel)
	}
	return accept(expect{cols: elems, hasCols: true, prefix: -1, nshard: nshard})
}

// ---- Prefixed ----------------------------------------------------------------
// "returns a slice with the provided prefix. A prefix determines the number of
// columns (starting at 0) in the slice that compose the key values [...] prefix
// of 2 means that columns 0 and 1 are the key."
func predPrefixed(s *sliceSpec, prefix int) verdict {
	if prefix < 0 {
		return reject("negative number of key columns")
	}
	if prefix > s.n() {
		return reject("prefix %d exceeds the %d columns", prefix, s.n())
	}
	if prefix == 0 {
		return excluded(oValueLevel)
	}
	return accept(expect{cols: s.cols, hasCols: true, prefix: prefix, nshard: -1})
}

// ---- Head --------------------------------------------------------------------
// "returns at most the first n items from each shard of the underlying slice.
// Its type is the same as the provided slice."
func predHead(s *sliceSpec, n int) verdict {
	if n < 0 {
		return excluded(oValueLevel)
	}
	return accept(expect{cols: s.cols, hasCols: true, prefix: s.prefix, nshard: s.nshard})
}

// ---- Scan --------------------------------------------------------------------
// "invokes a function for each shard of the input Slice. It returns a unit Slice"
func predScan(s *sliceSpec, nilFn bool) verdict {
	if nilFn {
		return excluded(oValueLevel)
	}
	return accept(expect{cols: nil, hasCols: true, prefix: -1, nshard: -1})
}

// ---- Reshuffle / Reshard -----------------------------------------------------
// Reshuffle: "shuffles rows by prefix [...] The output slice has the same type
// as the input."  Reshard: "resharded to the given number of shards".
func predReshuffle(s *sliceSpec) verdict {
	if s.n() == 0 {
		return excluded(oDegenerate)
	}
	if _, hs := s.keyCaps(); !hs {
		return excluded(oKeyOps)
	}
	return accept(expect{cols: s.cols, hasCols: true, prefix: s.prefix, nshard: -1})
}

func predReshard(s *sliceSpec, nshard int) verdict {
	if nshard < 1 {
		return excluded(oValueLevel)
	}
	if s.n() == 0 {
		return excluded(oDegenerate)
	}
	if _, hs := s.keyCaps(); !hs {
		return excluded(oKeyOps)
	}
	return accept(expect{cols: s.cols, hasCols: true, prefix: -1, nshard: nshard})
}

// ---- Cogroup -----------------------------------------------------------------
// "Cogroup(Slice<tk1, ..., tkp, t11, ..., t1n>, Slice<tk1, ..., tkp, t21, ..., t2n>, ..., Slice<tk1, ..., tkp, tm1, ..., tmn>)
//
//	Slice<tk1, ..., tkp, []t11, ..., []t1n, []t21, ..., []tmn>
//
// Cogroup uses the prefix columns of each slice as its key; keys must be partitionable."
func predCogroup(ss []*sliceSpec) verdict {
	if len(ss) == 0 {
		return excluded(oDegenerate)
	}
	for _, s := range ss {
		if s.n() == 0 || s.prefix > s.n() {
			return reject("slice %s has no key columns", s.name)
		}
	}
	p := ss[0].prefix
	keys := ss[0].cols[:p]
	for _, s := range ss[1:] {
		if s.prefix != p {
			return reject("prefix mismatch")
		}
		if !sameTypes(s.cols[:p], keys) {
			return reject("key column types differ")
		}
	}
	allSort := true
	for _, k := range keys {
		if !caps[k].hash {
			return reject("key type %s cannot be hashed, hence is not partitionable", k)
		}
		if !caps[k].sort {
			allSort = false
		}
	}
	out := append([]reflect.Type{}, keys...)
	degenerate := false
	for _, s := range ss {
		if s.n() == p {
			degenerate = true
		}
		for _, c := range s.cols[p:] {
			out = append(out, reflect.SliceOf(c))
		}
	}
	if degenerate {
		return excluded(oDegenerate)
	}
	if !allSort {
		return excluded(oKeyOps)
	}
	return accept(expect{cols: out, hasCols: true, prefix: -1, nshard: -1})
}

// ---- Func --------------------------------------------------------------------
// "Func creates a bigslice function from the provided function value. Bigslice
// funcs must return a single Slice value."
func predFunc(fi *fnInfo) verdict {
	if !fi.isFunc {
		return reject("not a function value: %s", fi.name)
	}
	if len(fi.out) != 1 {
		return reject("does not return a single value")
	}
	if fi.out[0] != tSlice {
		if fi.out[0].Implements(tSlice) {
			return excluded(oNamedKind)
		}
		return reject("does not return a Slice")
	}
	if fi.isNil {
		return excluded(oNilFunc)
	}
	return accept(expect{prefix: -1, nshard: -1})
}

// ---- FuncValue.Invocation / Apply ---------------------------------------------
// "Invocation panics with a type error if the provided arguments do not match in
// type or arity." (Apply: "panics with a type error if argument type or arity do
// not match.")
func predInvocation(fi *fnInfo, args []interface{}) verdict {
	if fi.variadic {
		// R2: literal reading ([]T last parameter) and Go-call readings.
		last := fi.in[len(fi.in)-1]
		cands := [][]reflect.Type{fi.in}
		for k := 0; k <= 4; k++ {
			c := append([]reflect.Type{}, fi.in[:len(fi.in)-1]...)
			for j := 0; j < k; j++ {
				c = append(c, last.Elem())
			}
			cands = append(cands, c)
		}
		for _, c := range cands {
			if v := predInvocation(&fnInfo{isFunc: true, in: c, out: fi.out}, args); v.k != vReject {
				return excluded(oVariadic)
			}
		}
		return reject("variadic function: arguments fit under no reading")
	}
	if len(args) != len(fi.in) {
		return reject("arity")
	}
	open := ""
	for i, a := range args {
		p := fi.in[i]
		t := reflect.TypeOf(a)
		if t == nil {
			switch p.Kind() {
			case reflect.Chan, reflect.Func, reflect.Interface, reflect.Map, reflect.Ptr, reflect.Slice, reflect.UnsafePointer:
				open = oValueLevel
				continue
			}
			return reject("nil for %s", p)
		}
		if t == p {
			continue
		}
		if p.Kind() == reflect.Interface && t.Implements(p) {
			continue // the only way to pass a value for an interface-typed parameter
		}
		// "do not match in type": for a parameter that is not of interface type the
		// argument's type must BE the parameter type (FuncValue.In: "the i'th
		// argument type"). A different type that merely happens to be assignable
		// ([]int for type IDs []int, chan int for <-chan int) is a type mismatch.
		return reject("argument %d: %s for %s", i, t, p)
	}
	if open != "" {
		return excluded(open)
	}
	return accept(expect{prefix: -1, nshard: -1})
}
