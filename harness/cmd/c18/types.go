package main

import (
	"context"
	"reflect"
	"sync/atomic"

	"github.com/grailbio/bigslice"
	"github.com/grailbio/bigslice/frame"
)

// ---- column types of the universe -------------------------------------------

// hkey can be hashed but not sorted; skey can be sorted but not hashed. Their
// capabilities are a fact of THIS file (we register the ops), so the oracle's
// capability table below does not consult the implementation.
type hkey struct{ K int32 }
type skey struct{ K int32 }

// Named types whose KIND is string / int / int64 but for which no frame ops are
// registered: frame looks ops up by exact type, so these cannot be hashed or sorted
// although an accumulator could be built for their kind.
type nStr string
type nInt int
type nI64 int64

type myBool bool
type myInt int
type ints []int

type myErr struct{}

func (*myErr) Error() string { return "myErr" }

type st struct{ N int }

// Column types that IMPLEMENT context.Context without being it. As column /
// parameter types they are ordinary types: the optional extra argument of a
// user function is documented as "of type context.Context".
type traceCtx interface {
	context.Context
	Trace() string
}

// ctxStruct is a struct type carrying the four context methods.
type ctxStruct struct{ context.Context }

type tracer struct{ context.Context }

func (tracer) Trace() string { return "t" }

var (
	aTraceCtx  traceCtx = tracer{context.Background()}
	aCtxStruct          = ctxStruct{context.Background()}
)

func init() {
	frame.RegisterOps(func(s []hkey) frame.Ops {
		return frame.Ops{HashWithSeed: func(i int, seed uint32) uint32 { return uint32(s[i].K)*2654435761 ^ seed }}
	})
	frame.RegisterOps(func(s []skey) frame.Ops {
		return frame.Ops{Less: func(i, j int) bool { return s[i].K < s[j].K }}
	})
}

var (
	tInt     = reflect.TypeOf(int(0))
	tString  = reflect.TypeOf("")
	tFloat   = reflect.TypeOf(float64(0))
	tBool    = reflect.TypeOf(false)
	tInts    = reflect.TypeOf([]int(nil))
	tStrings = reflect.TypeOf([]string(nil))
	tNStr    = reflect.TypeOf(nStr(""))
	tNInt    = reflect.TypeOf(nInt(0))
	tNI64    = reflect.TypeOf(nI64(0))
	tInt64   = reflect.TypeOf(int64(0))
	tHkey    = reflect.TypeOf(hkey{})
	tSkey    = reflect.TypeOf(skey{})
	tTrace   = reflect.TypeOf((*traceCtx)(nil)).Elem()
	tCtxStr  = reflect.TypeOf(ctxStruct{})
	tError   = reflect.TypeOf((*error)(nil)).Elem()
	tCtx     = reflect.TypeOf((*context.Context)(nil)).Elem()
	tSlice   = reflect.TypeOf((*bigslice.Slice)(nil)).Elem()
)

type capability struct{ hash, sort bool }

// caps: what each column type of the universe supports. int/string/float64 have
// built-in ops in package frame (documented: "not all types may support all
// operations"); slices have none; hkey/skey as registered above.
var caps = map[reflect.Type]capability{
	tInt:     {true, true},
	tString:  {true, true},
	tFloat:   {true, true},
	tInt64:   {true, true},
	tNStr:    {false, false},
	tNInt:    {false, false},
	tNI64:    {false, false},
	tInts:    {false, false},
	tStrings: {false, false},
	tHkey:    {true, false},
	tSkey:    {false, true},
	tTrace:   {false, false},
	tCtxStr:  {false, false},
}

// ranCount counts executions of any user function of the universe. No
// constructor may run any of them.
var ranCount int64

func ran() { atomic.AddInt64(&ranCount, 1) }
