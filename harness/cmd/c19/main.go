// C19 — concurrent runs in one session; also serves the schedule-exploration
// layers of C12 (results reused / rescanned / discarded concurrently) and C14(d)
// (local executor parallelism limit) because they share the same scenarios: a real
// exec.Session on the local executor, source-instrumented, under the vsched scheduler.
//
//	c19-sched -tier quick            property C19 (writes evidence/C19.json)
//	c19-sched -layer C12 ...         prints "LAYER {json}" for the c12 harness to merge
//	c19-sched -layer C14 ...         same for c14
package main

import (
	"bytes"
	"context"
	"encoding/json"
	"flag"
	"fmt"
	"os"
	osexec "os/exec"
	"reflect"
	"sort"
	"strings"
	"time"

	"github.com/grailbio/bigslice"
	"github.com/grailbio/bigslice/exec"
	"github.com/grailbio/bigslice/metrics"
	"github.com/grailbio/bigslice/verifrt/vsched"
	"verifh/ev"
	"verifh/mc"
	"verifh/vsys"
)

// ---- programs (registered at init; behaviour selected by arguments) -----------

const ntags = 8

var (
	rowsSeen [ntags]int // rows processed by the source Map, per tag
	active   int        // user functions currently inside a task (for the parallelism oracle)
	maxAct   int
	exclBad  string
)

var monKey uintptr = 0xc19

var srcKeys = []int{1, 2, 3}

// fSrc: Const(nshard) -> Map that counts processed rows under tag.
var fSrc = bigslice.Func(func(tag, nshard int) bigslice.Slice {
	s := bigslice.Const(nshard, append([]int{}, srcKeys...), []int{10, 20, 30})
	return bigslice.Map(s, func(k, v int) (int, int) {
		vsched.Monitor(monKey, func() { rowsSeen[tag]++ })
		return k, v + tag
	})
})

// fCount: Const(nshard) -> Map that increments a user metric once per row.
var (
	rowCounter = metrics.NewCounter()
	fCount     = bigslice.Func(func(nshard int) bigslice.Slice {
		s := bigslice.Const(nshard, append([]int{}, srcKeys...), []int{10, 20, 30})
		return bigslice.Map(s, func(ctx context.Context, k, v int) (int, int) {
			rowCounter.Incr(metrics.ContextScope(ctx), 1)
			return k, v
		})
	})
)

// scopeBody: the counters of a result are complete as soon as Run has returned (C20:
// "for a failure-free run the counters reported for a result equal the sum of the
// increments performed while computing it").
func scopeBody(nshard int) func(sess *exec.Session, o *outcome) {
	return func(sess *exec.Session, o *outcome) {
		res, err := sess.Run(context.Background(), fCount, nshard)
		if err != nil {
			vsched.Fail("C: Run failed: %v", strings.ReplaceAll(err.Error(), "\n", " // "))
			return
		}
		sc := res.Scope()
		if got := rowCounter.Value(sc); got != int64(len(srcKeys)) {
			vsched.Fail("C: metrics counter of the result reads %d right after Run returned, %d rows were processed", got, len(srcKeys))
		}
		o.add("C=%d", rowCounter.Value(sc))
	}
}

// fMapOf: pipelined consumer of a result.
var fMapOf = bigslice.Func(func(r bigslice.Slice, mul int) bigslice.Slice {
	return bigslice.Map(r, func(k, v int) (int, int) { return k, v * mul })
})

// fShuffleOf: consumer of a result through a shuffle (Map then Reduce).
var fShuffleOf = bigslice.Func(func(r bigslice.Slice, mod int) bigslice.Slice {
	s := bigslice.Map(r, func(k, v int) (int, int) { return k % mod, v })
	return bigslice.Reduce(s, func(a, b int) int { return a + b })
})

// fShuffle: 2-shard program with a shuffle.
var fShuffle = bigslice.Func(func(tag, mod int) bigslice.Slice {
	s := bigslice.Const(2, []int{1, 2, 3, 4}, []int{1, 1, 1, 1})
	s = bigslice.Map(s, func(k, v int) (int, int) {
		vsched.Monitor(monKey, func() { rowsSeen[tag]++ })
		return k % mod, v
	})
	return bigslice.Reduce(s, func(a, b int) int { return a + b })
})

var (
	excl   = map[int]bool{}
	inside = map[int]bool{}
)

func srcRows(tag int) string {
	var rows []string
	for i, k := range srcKeys {
		rows = append(rows, fmt.Sprintf("%d:%d", k, (i+1)*10+tag))
	}
	return strings.Join(rows, ",")
}

func mapRows(tag, mul int) string {
	var rows []string
	for i, k := range srcKeys {
		rows = append(rows, fmt.Sprintf("%d:%d", k, ((i+1)*10+tag)*mul))
	}
	return strings.Join(rows, ",")
}

func shuffleOfRows(tag, mod int) string {
	m := map[int]int{}
	for i, k := range srcKeys {
		m[k%mod] += (i+1)*10 + tag
	}
	return fmtMap(m)
}

func shuffleRows(mod int) string {
	m := map[int]int{}
	for _, k := range []int{1, 2, 3, 4} {
		m[k%mod]++
	}
	return fmtMap(m)
}

func fmtMap(m map[int]int) string {
	var ks []int
	for k := range m {
		ks = append(ks, k)
	}
	sort.Ints(ks)
	var rows []string
	for _, k := range ks {
		rows = append(rows, fmt.Sprintf("%d:%d", k, m[k]))
	}
	return strings.Join(rows, ",")
}

// scan reads a result through its Scanner; rows in delivery order.
func scan(res *exec.Result) (rows []string, err error) {
	sc := res.Scanner()
	defer sc.Close()
	var k, v int
	for sc.Scan(context.Background(), &k, &v) {
		rows = append(rows, fmt.Sprintf("%d:%d", k, v))
	}
	return rows, sc.Err()
}

func sorted(rows []string) string {
	c := append([]string{}, rows...)
	sort.Slice(c, func(i, j int) bool {
		var a, b, x, y int
		fmt.Sscanf(c[i], "%d:%d", &a, &x)
		fmt.Sscanf(c[j], "%d:%d", &b, &y)
		if a != b {
			return a < b
		}
		return x < y
	})
	return strings.Join(c, ",")
}

// ---- scenario plumbing -----------------------------------------------------------

type outcome struct{ parts []string }

func (o *outcome) add(format string, a ...interface{}) {
	vsched.Monitor(monKey, func() { o.parts = append(o.parts, fmt.Sprintf(format, a...)) })
}

// seen reads a row counter.
func seen(tag int) (n int) {
	vsched.Monitor(monKey, func() { n = rowsSeen[tag] })
	return
}

func reset() {
	for i := range rowsSeen {
		rowsSeen[i] = 0
	}
	active, maxAct, exclBad = 0, 0, ""
	excl, inside = map[int]bool{}, map[int]bool{}
}

// runWant runs f(args) and requires success with exactly the wanted rows (as a multiset).
func runWant(sess *exec.Session, o *outcome, label, want string, f *bigslice.FuncValue, args ...interface{}) *exec.Result {
	res, err := sess.Run(context.Background(), f, args...)
	if err != nil {
		vsched.Fail("%s: Run failed: %v", label, strings.ReplaceAll(err.Error(), "\n", " // "))
		o.add("%s=err", label)
		return nil
	}
	rows, err := scan(res)
	if err != nil {
		vsched.Fail("%s: scan of a freshly computed result failed: %v", label, firstLine(err.Error()))
		return res
	}
	if got := sorted(rows); got != want {
		vsched.Fail("%s: rows %q, want %q", label, got, want)
	}
	o.add("%s=ok", label)
	return res
}

// scanPrefix scans a result that may be discarded concurrently: all rows, or a correct prefix then an error.
func scanPrefix(o *outcome, label string, res *exec.Result, want string) {
	rows, err := scan(res)
	wantRows := strings.Split(want, ",")
	if len(rows) > len(wantRows) {
		vsched.Fail("%s: scan delivered %d rows, result has %d", label, len(rows), len(wantRows))
		return
	}
	for i := range rows {
		if rows[i] != wantRows[i] {
			vsched.Fail("%s: scan delivered row %q at position %d, want %q", label, rows[i], i, wantRows[i])
			return
		}
	}
	if err == nil && len(rows) != len(wantRows) {
		vsched.Fail("%s: scan ended without error after %d of %d rows", label, len(rows), len(wantRows))
		return
	}
	if err != nil {
		o.add("%s=prefix%d+err", label, len(rows))
	} else {
		o.add("%s=all", label)
	}
}

func firstLine(s string) string {
	if i := strings.IndexByte(s, '\n'); i >= 0 {
		s = s[:i]
	}
	if len(s) > 200 {
		s = s[:200]
	}
	return s
}

func par(fs ...func()) {
	var wg vsched.WaitGroup
	for i, f := range fs {
		f := f
		wg.Add(1)
		vsched.Go(fmt.Sprintf("par%d", i), func() {
			defer wg.Done()
			f()
		})
	}
	wg.Wait()
}

type scen struct {
	name  string
	props []string // which properties' layers use it
	p     int
	body  func(sess *exec.Session, o *outcome)
}

// isDist: scenarios named dist/... run on a one-machine verifsystem cluster (machine boot in a prelude).
func (s scen) isDist() bool { return strings.HasPrefix(s.name, "dist/") }

func scenarios() []scen {
	var out []scen
	for _, p := range []int{1, 2} {
		p := p
		sfx := fmt.Sprintf("/p%d", p)
		out = append(out,
			scen{"scope" + sfx, []string{"C20"}, p, scopeBody(2)},
			scen{"run2" + sfx, []string{"C19"}, p, func(sess *exec.Session, o *outcome) {
				par(func() { runWant(sess, o, "A", srcRows(0), fSrc, 0, 1) },
					func() { runWant(sess, o, "B", srcRows(1), fSrc, 1, 1) })
				for tag := 0; tag < 2; tag++ {
					if seen(tag) != len(srcKeys) {
						vsched.Fail("source %d processed %d rows, want %d (each task executed once)", tag, seen(tag), len(srcKeys))
					}
				}
			}},
			scen{"reuse2" + sfx, []string{"C19", "C12"}, p, func(sess *exec.Session, o *outcome) {
				r := runWant(sess, o, "R", srcRows(0), fSrc, 0, 1)
				par(func() { runWant(sess, o, "G", mapRows(0, 10), fMapOf, r, 10) },
					func() { runWant(sess, o, "H", mapRows(0, 100), fMapOf, r, 100) })
				if seen(0) != len(srcKeys) {
					vsched.Fail("shared source task processed %d rows, want %d (executed once, no loss)", seen(0), len(srcKeys))
				}
			}},
			scen{"reuse2lost" + sfx, []string{"C19", "C12"}, p, func(sess *exec.Session, o *outcome) {
				r := runWant(sess, o, "R", srcRows(0), fSrc, 0, 1)
				r.Discard(context.Background())
				par(func() { runWant(sess, o, "G", mapRows(0, 10), fMapOf, r, 10) },
					func() { runWant(sess, o, "H", mapRows(0, 100), fMapOf, r, 100) })
				if seen(0) != 2*len(srcKeys) {
					vsched.Fail("shared source task processed %d rows, want %d (one initial run + one recomputation by one of the runs)", seen(0), 2*len(srcKeys))
				}
			}},
			scen{"mix3" + sfx, []string{"C19", "C12"}, p, func(sess *exec.Session, o *outcome) {
				r := runWant(sess, o, "R", srcRows(0), fSrc, 0, 1)
				par(func() { runWant(sess, o, "G", mapRows(0, 10), fMapOf, r, 10) },
					func() { scanPrefix(o, "S", r, srcRows(0)) },
					func() { r.Discard(context.Background()); o.add("D") })
			}},
			scen{"scan2" + sfx, []string{"C12"}, p, func(sess *exec.Session, o *outcome) {
				r := runWant(sess, o, "R", srcRows(0), fSrc, 0, 1)
				par(func() { scanPrefix(o, "S1", r, srcRows(0)) }, func() { scanPrefix(o, "S2", r, srcRows(0)) })
				if len(o.parts) > 0 && strings.Contains(strings.Join(o.parts, " "), "err") {
					vsched.Fail("concurrent scans of an intact result reported an error: %v", o.parts)
				}
			}},
			scen{"scandiscard" + sfx, []string{"C12"}, p, func(sess *exec.Session, o *outcome) {
				r := runWant(sess, o, "R", srcRows(0), fSrc, 0, 1)
				par(func() { scanPrefix(o, "S", r, srcRows(0)) },
					func() { r.Discard(context.Background()); o.add("D") })
				// a later Func recomputes what was discarded
				runWant(sess, o, "G", mapRows(0, 10), fMapOf, r, 10)
			}},
			scen{"rundiscard" + sfx, []string{"C12"}, p, func(sess *exec.Session, o *outcome) {
				r := runWant(sess, o, "R", srcRows(0), fSrc, 0, 1)
				par(func() { runWant(sess, o, "G", mapRows(0, 10), fMapOf, r, 10) },
					func() { r.Discard(context.Background()); o.add("D") })
			}},
			scen{"run2discard" + sfx, []string{"C12"}, p, func(sess *exec.Session, o *outcome) {
				r := runWant(sess, o, "R", srcRows(0), fSrc, 0, 1)
				par(func() { runWant(sess, o, "G", mapRows(0, 10), fMapOf, r, 10) },
					func() { runWant(sess, o, "H", shuffleOfRows(0, 2), fShuffleOf, r, 2) },
					func() { r.Discard(context.Background()); o.add("D") })
			}},
		)
	}
	out = append(out,
		scen{"shuffle2/p2", []string{"C19"}, 2, func(sess *exec.Session, o *outcome) {
			par(func() { runWant(sess, o, "A", shuffleRows(2), fShuffle, 0, 2) },
				func() { runWant(sess, o, "B", shuffleRows(3), fShuffle, 1, 3) })
			for tag := 0; tag < 2; tag++ {
				if seen(tag) != 4 {
					vsched.Fail("program %d processed %d source rows, want 4", tag, seen(tag))
				}
			}
		}},
		scen{"reuseshuffle/p2", []string{"C19", "C12"}, 2, func(sess *exec.Session, o *outcome) {
			r := runWant(sess, o, "R", srcRows(0), fSrc, 0, 2)
			par(func() { runWant(sess, o, "G", shuffleOfRows(0, 2), fShuffleOf, r, 2) },
				func() { runWant(sess, o, "H", mapRows(0, 10), fMapOf, r, 10) })
			if seen(0) != len(srcKeys) {
				vsched.Fail("shared source tasks processed %d rows, want %d", seen(0), len(srcKeys))
			}
		}},
	)
	// Distributed executor under the scheduler: one verifsystem machine; the first run
	// (machine boot, compilation) is a non-explored prelude, then the concurrent part.
	out = append(out,
		scen{"dist/rundiscard", []string{"C19", "C12"}, 1, func(sess *exec.Session, o *outcome) {
			var r *exec.Result
			vsched.Prelude(func() { r = runWant(sess, o, "R", srcRows(0), fSrc, 0, 1) })
			par(func() { runWant(sess, o, "G", mapRows(0, 10), fMapOf, r, 10) },
				func() { r.Discard(context.Background()); o.add("D") })
		}},
		scen{"dist/discardrun", []string{"C19", "C12"}, 1, func(sess *exec.Session, o *outcome) {
			// same as dist/rundiscard with the discarding thread first in the default order
			var r *exec.Result
			vsched.Prelude(func() { r = runWant(sess, o, "R", srcRows(0), fSrc, 0, 1) })
			par(func() { r.Discard(context.Background()); o.add("D") },
				func() { runWant(sess, o, "G", mapRows(0, 10), fMapOf, r, 10) })
			// a later Func must still be able to use (recompute) the result
			runWant(sess, o, "H", mapRows(0, 100), fMapOf, r, 100)
		}},
		scen{"dist/discardscan", []string{"C19", "C12"}, 1, func(sess *exec.Session, o *outcome) {
			// A scan that starts only once the discard has marked the task LOST on the driver
			// (its remote part may still be pending); then a later Func must be able to use r.
			var r *exec.Result
			vsched.Prelude(func() { r = runWant(sess, o, "R", srcRows(0), fSrc, 0, 1) })
			par(func() { r.Discard(context.Background()); o.add("D") },
				func() {
					vsched.Await("source-task-lost", func() bool {
						for _, st := range exec.VerifC19ResultStates(r) {
							if st == exec.TaskLost {
								return true
							}
						}
						return false
					})
					scanPrefix(o, "S", r, srcRows(0))
				})
			runWant(sess, o, "H", mapRows(0, 100), fMapOf, r, 100)
		}},
		scen{"dist/scope1", []string{"C20"}, 1, func(sess *exec.Session, o *outcome) {
			vsched.Prelude(func() { runWant(sess, o, "R", srcRows(1), fSrc, 1, 1) }) // boots the machine
			scopeBody(1)(sess, o)
		}},
		scen{"dist/scope2", []string{"C20"}, 2, func(sess *exec.Session, o *outcome) {
			vsched.Prelude(func() { runWant(sess, o, "R", srcRows(1), fSrc, 1, 1) })
			scopeBody(2)(sess, o)
		}},
		scen{"dist/mix3", []string{"C19", "C12"}, 1, func(sess *exec.Session, o *outcome) {
			var r *exec.Result
			vsched.Prelude(func() { r = runWant(sess, o, "R", srcRows(0), fSrc, 0, 1) })
			par(func() { r.Discard(context.Background()); o.add("D") },
				func() { scanPrefix(o, "S", r, srcRows(0)) },
				func() { runWant(sess, o, "G", mapRows(0, 10), fMapOf, r, 10) })
		}},
		scen{"dist/reuse2", []string{"C19", "C12"}, 1, func(sess *exec.Session, o *outcome) {
			var r *exec.Result
			vsched.Prelude(func() { r = runWant(sess, o, "R", srcRows(0), fSrc, 0, 1) })
			par(func() { runWant(sess, o, "G", mapRows(0, 10), fMapOf, r, 10) },
				func() { runWant(sess, o, "H", mapRows(0, 100), fMapOf, r, 100) })
			if seen(0) != len(srcKeys) {
				vsched.Fail("shared source task processed %d rows, want %d (executed once, no loss)", seen(0), len(srcKeys))
			}
		}},
		scen{"dist/scandiscard", []string{"C12"}, 1, func(sess *exec.Session, o *outcome) {
			var r *exec.Result
			vsched.Prelude(func() { r = runWant(sess, o, "R", srcRows(0), fSrc, 0, 1) })
			par(func() { scanPrefix(o, "S", r, srcRows(0)) },
				func() { r.Discard(context.Background()); o.add("D") })
			runWant(sess, o, "G", mapRows(0, 10), fMapOf, r, 10)
		}},
	)
	// C14(d): local-mode parallelism limit and exclusivity
	for _, p := range []int{1, 2} {
		p := p
		out = append(out,
			scen{fmt.Sprintf("limit3/p%d", p), []string{"C14"}, p, func(sess *exec.Session, o *outcome) {
				par(func() { runWant(sess, o, "A", "0:0", fSlow1, 0, false) },
					func() { runWant(sess, o, "B", "1:0", fSlow1, 1, false) },
					func() { runWant(sess, o, "C", "2:0", fSlow1, 2, false) })
				if maxAct > p {
					vsched.Fail("%d tasks ran at once with Parallelism(%d)", maxAct, p)
				}
				o.add("max=%d", maxAct)
			}},
			scen{fmt.Sprintf("excl3/p%d", p), []string{"C14"}, p, func(sess *exec.Session, o *outcome) {
				par(func() { runWant(sess, o, "A", "0:0", fSlow1, 0, false) },
					func() { runWant(sess, o, "X", "1:0", fSlow1, 1, true) },
					func() { runWant(sess, o, "C", "2:0", fSlow1, 2, false) })
				if maxAct > p {
					vsched.Fail("%d tasks ran at once with Parallelism(%d)", maxAct, p)
				}
				if exclBad != "" {
					vsched.Fail("%s", exclBad)
				}
				o.add("max=%d", maxAct)
			}},
			scen{fmt.Sprintf("limitreduce/p%d", p), []string{"C14"}, p, func(sess *exec.Session, o *outcome) {
				par(func() { runWant(sess, o, "R", "0:3,1:3,2:3", fSlowReduce, 0) },
					func() { runWant(sess, o, "X", "1:0", fSlow1, 1, true) })
				if maxAct > p {
					vsched.Fail("%d tasks ran user code (combiner) at once with Parallelism(%d)", maxAct, p)
				}
				if exclBad != "" {
					vsched.Fail("%s", exclBad)
				}
				o.add("max=%d", maxAct)
			}},
		)
	}
	// C19: one of two concurrent runs sharing a lost task is cancelled; the other must finish
	out = append(out,
		scen{"cancel2/p2", []string{"C19"}, 2, func(sess *exec.Session, o *outcome) {
			r := runWant(sess, o, "R", srcRows(0), fSrc, 0, 1)
			r.Discard(context.Background())
			ctxA, cancelA := context.WithCancel(context.Background())
			par(func() {
				res, err := sess.Run(ctxA, fMapOf, r, 10)
				switch {
				case err != nil:
					o.add("A=err")
				default:
					rows, serr := scan(res)
					if serr == nil && sorted(rows) != mapRows(0, 10) {
						vsched.Fail("A: rows %q, want %q", sorted(rows), mapRows(0, 10))
					}
					o.add("A=ok")
				}
			},
				func() { runWant(sess, o, "B", mapRows(0, 100), fMapOf, r, 100) },
				func() { cancelA(); o.add("C") })
		}},
	)
	return out
}

// fSlow1 wraps fSlow so that results have two columns (k, 0) for the common scanner.
var fSlow1 = bigslice.Func(func(tag int, exclusive bool) bigslice.Slice {
	var prags []bigslice.Pragma
	if exclusive {
		prags = append(prags, bigslice.Exclusive)
	}
	s := bigslice.Const(1, []int{tag}, []int{0})
	return bigslice.Map(s, func(k, z int) (int, int) {
		vsched.Monitor(monKey, func() {
			active++
			if active > maxAct {
				maxAct = active
			}
			if exclusive && active > 1 {
				exclBad = fmt.Sprintf("exclusive task %d ran alongside %d other task(s)", tag, active-1)
			}
			for t, e := range excl {
				if e && t != tag && inside[t] {
					exclBad = fmt.Sprintf("task %d ran while exclusive task %d was running", tag, t)
				}
			}
			excl[tag] = exclusive
			inside[tag] = true
		})
		vsched.Yield("user-code") // other tasks may run here if the executor lets them
		vsched.Monitor(monKey, func() {
			inside[tag] = false
			active--
		})
		return k, z
	}, prags...)
})

// fSlowReduce: 3 producer shards, every key in every shard, so that each of the 3
// reduce tasks runs the user's combiner while it gathers its input; the combiner counts
// how many tasks are inside user code at once (local mode: at most Parallelism).
var fSlowReduce = bigslice.Func(func(tag int) bigslice.Slice {
	s := bigslice.Const(3, []int{0, 1, 2, 0, 1, 2, 0, 1, 2}, []int{1, 1, 1, 1, 1, 1, 1, 1, 1})
	return bigslice.Reduce(s, func(a, b int) int {
		vsched.Monitor(monKey, func() {
			active++
			if active > maxAct {
				maxAct = active
			}
			for t, e := range excl {
				if e && inside[t] {
					exclBad = fmt.Sprintf("a reduce task's combiner ran while exclusive task %d was running", t)
				}
			}
		})
		vsched.Yield("combiner")
		vsched.Monitor(monKey, func() { active-- })
		return a + b
	})
})

func mkScenario(s scen) *mc.Scenario {
	var o *outcome
	sc := &mc.Scenario{Name: s.name, Grace: 0}
	if s.isDist() {
		sc.Grace = 3 * time.Second
	}
	sc.Body = func() {
		reset()
		o = &outcome{}
		var sess *exec.Session
		if s.isDist() {
			sys := vsys.New(1)
			sys.MaxMachines = 1
			sys.Keepalive = [3]time.Duration{50 * time.Millisecond, time.Minute, 10 * time.Second}
			sess = exec.Start(exec.Bigmachine(sys), exec.Parallelism(s.p))
			// the machine's supervisor and keepalive loop are not the scheduler's: stop them
			// once the execution is over, or thousands of executions' worth of keepalive
			// traffic starve the later executions of CPU
			vsched.Cleanup(sys.Stop)
		} else {
			sess = exec.Start(exec.Local, exec.Parallelism(s.p))
		}
		s.body(sess, o)
	}
	sc.Outcome = func() string {
		c := append([]string{}, o.parts...)
		sort.Strings(c)
		return strings.Join(c, " ") + fmt.Sprintf(" src=%v", rowsSeen[:2])
	}
	sc.Class = func(err string) string {
		l := firstLine(err)
		switch {
		case strings.HasPrefix(l, "deadlock"):
			return "deadlock"
		case strings.Contains(l, "metrics counter"):
			return "counters-incomplete-after-run"
		case strings.Contains(l, "Run failed"):
			return "run-failed"
		case strings.Contains(l, "rows ") && strings.Contains(l, "want"):
			return "wrong-rows"
		case strings.Contains(l, "processed"):
			return "task-execution-count"
		case strings.Contains(l, "scan"):
			return "scan-" + strings.Fields(l[strings.Index(l, "scan"):])[1]
		case strings.Contains(l, "ran at once"), strings.Contains(l, "at once with Parallelism"):
			return "parallelism-exceeded"
		case strings.Contains(l, "exclusive"):
			return "exclusive-not-alone"
		}
		return l
	}
	return sc
}

var (
	flagLayer    = flag.String("layer", "", "emit the S layer for another property (C12|C14) as LAYER json")
	flagRacePass = flag.Int("racepass", 0, "internal (race flavour): run every scenario body N times free-running")
	flagRaceOnly = flag.String("raceonly", "", "restrict -racepass to scenarios containing this substring")
)

// racePass runs the scenario bodies without the scheduler (the vsched API passes
// through to real goroutines and locks) so that the Go race detector, which is
// blinded by a cooperative scheduler's hand-offs, can observe them.
func racePass(all []scen, n int) {
	fails := map[string]int{}
	runs := 0
	for _, cluster := range []bool{false, true} {
		for _, s := range all {
			if *flagRaceOnly != "" && !strings.Contains(s.name, *flagRaceOnly) {
				continue
			}
			if s.isDist() {
				continue // the cluster variants of the other scenarios cover this
			}
			for i := 0; i < n; i++ {
				reset()
				o := &outcome{}
				var sess *exec.Session
				name := s.name
				if cluster {
					if i >= (n+1)/2 {
						break
					}
					sys := vsys.New(2)
					sys.Keepalive = [3]time.Duration{50 * time.Millisecond, 30 * time.Second, 10 * time.Second}
					sess = exec.Start(exec.Bigmachine(sys), exec.Parallelism(2*s.p))
					name = "cluster/" + name
				} else {
					sess = exec.Start(exec.Local, exec.Parallelism(s.p))
				}
				s.body(sess, o)
				runs++
				for _, f := range vsched.PassFails() {
					fails[name+": "+firstLine(f)]++
				}
			}
		}
	}
	b, _ := json.Marshal(map[string]interface{}{"runs": runs, "fails": fails})
	fmt.Printf("RACEPASS %s\n", b)
}

// runRacePass executes the race-flavour binary with several GOMAXPROCS values.
func runRacePass(r *ev.Run) map[string]interface{} {
	bin := os.Getenv("VERIF_BIN_DIR") + "/c19-race"
	if _, err := os.Stat(bin); err != nil {
		r.NotExhaustive("race pass skipped: " + bin + " not built")
		return nil
	}
	total := 0
	reports := 0
	plist, n := []string{"1", "2", "4", "16"}, "8"
	if !r.Thorough() {
		plist, n = []string{"4"}, "2" // quick: one light pass (~15 s)
	}
	for _, procs := range plist {
		cmd := osexec.Command(bin, "-racepass", n)
		cmd.Env = append(os.Environ(), "GOMAXPROCS="+procs, "GORACE=halt_on_error=0 exitcode=0")
		var out, errb bytes.Buffer
		cmd.Stdout, cmd.Stderr = &out, &errb
		err := cmd.Run()
		var res struct {
			Runs  int            `json:"runs"`
			Fails map[string]int `json:"fails"`
		}
		found := false
		for _, l := range strings.Split(out.String(), "\n") {
			if strings.HasPrefix(l, "RACEPASS ") {
				json.Unmarshal([]byte(l[9:]), &res)
				found = true
			}
		}
		if !found {
			fmt.Fprintf(os.Stderr, "MACHINERY-ERROR: race pass (GOMAXPROCS=%s) produced no result: %v\n%s\n", procs, err, tailStr(errb.String(), 3000))
			r.NotExhaustive("race pass child failed (GOMAXPROCS=" + procs + ")")
			continue
		}
		total += res.Runs
		for f, c := range res.Fails {
			r.Violate("C19/racepass/"+f, fmt.Sprintf("free-running run (GOMAXPROCS=%s, %d times): %s", procs, c, f), nil)
		}
		// data race reports
		for _, blk := range strings.Split(errb.String(), "WARNING: DATA RACE")[1:] {
			reports++
			sig := "C19/data-race/" + raceSite(blk)
			r.Violate(sig, "data race reported by the Go race detector:\n"+tailHead(blk, 2500), map[string]interface{}{"report": tailHead(blk, 6000), "gomaxprocs": procs})
		}
	}
	return map[string]interface{}{"free_running_runs": total, "race_reports": reports, "gomaxprocs": plist,
		"note": "dynamic happens-before race detection over sampled schedules (auxiliary; not exhaustive)"}
}

func tailStr(s string, n int) string {
	if len(s) > n {
		return s[len(s)-n:]
	}
	return s
}

func tailHead(s string, n int) string {
	if len(s) > n {
		return s[:n]
	}
	return s
}

// raceSite extracts the first bigslice frame of a race report as its identity.
func raceSite(blk string) string {
	for _, l := range strings.Split(blk, "\n") {
		l = strings.TrimSpace(l)
		if strings.Contains(l, "/repo/") || strings.Contains(l, "bigslice/") {
			if i := strings.LastIndex(l, "/"); i >= 0 {
				l = l[i+1:]
			}
			if j := strings.Index(l, " "); j > 0 {
				l = l[:j]
			}
			return l
		}
	}
	return "unknown-site"
}

func main() {
	vsys.Quiet()
	exec.DoShuffleReaders = false
	vsched.RegisterNamer(reflect.TypeOf((*exec.Task)(nil)), func(k interface{}) string { return k.(*exec.Task).Name.String() })
	all := scenarios()
	var mcs []*mc.Scenario
	for _, s := range all {
		mcs = append(mcs, mkScenario(s))
	}
	mc.ChildMain(mcs)
	if *flagRacePass > 0 {
		var c19 []scen
		for _, s := range all {
			for _, p := range s.props {
				if p == "C19" {
					c19 = append(c19, s)
				}
			}
		}
		racePass(c19, *flagRacePass)
		return
	}

	prop := "C19"
	if *flagLayer != "" {
		prop = *flagLayer
	}
	r := ev.Start(prop, "model_checking")
	budget := 45 * time.Second
	bound := 2
	if r.Thorough() {
		budget = 10 * time.Minute
		bound = 3
	}
	var plans []mc.Plan
	for _, s := range all {
		use := false
		for _, p := range s.props {
			if p == prop {
				use = true
			}
		}
		if !use {
			continue
		}
		b := bound
		if s.isDist() && s.name != "dist/discardscan" && !r.Thorough() {
			b = 1 // cluster executions are ~10x slower; the Await-based scenario keeps bound 2
		}
		plans = append(plans, mc.Plan{Scenario: s.name, Delay: true, Bound: b, Budget: budget})
		if r.Thorough() {
			plans = append(plans, mc.Plan{Scenario: s.name, Delay: false, Bound: 0, Budget: budget})
		}
	}
	sum := mc.RunPlans(r, mcs, plans)
	rule := "real exec.Session (local executor), source-instrumented, under the vsched scheduler; per scenario all schedules with <= bound scheduling deviations (delay bounding; preemption bound 0 additionally where listed) modulo happens-before equivalence"
	cov := sum.Coverage(rule)
	if *flagLayer != "" {
		// hand the layer over to the owning harness
		out := map[string]interface{}{"coverage": cov, "violations": r.Violations(), "machinery": sum.Machinery}
		b, _ := json.Marshal(out)
		_ = b
		out["violation_list"] = r.Pending()
		b, _ = json.Marshal(out)
		fmt.Printf("LAYER %s\n", b)
		os.Exit(0)
	}
	r.Assume = append(r.Assume,
		"vsched: explored code is data-race free apart from what the separate race pass reports; all blocking interactions go through instrumented constructs; 64-bit history hashes do not collide",
		"data races are looked for by a separate free-running -race pass (light in the quick tier, 4 GOMAXPROCS values x 8 rounds in the thorough tier), which samples schedules")
	if sum.Machinery > 0 {
		r.NotExhaustive(fmt.Sprintf("%d plans hit a machinery error (see stderr)", sum.Machinery))
	}
	if rp := runRacePass(r); rp != nil {
		cov["race_pass"] = rp
	}
	r.Finish(cov)
}
