package main

import (
	"context"
	"flag"
	"fmt"
	"strings"
	"time"

	"github.com/grailbio/bigslice"
	"github.com/grailbio/bigslice/exec"
	"github.com/grailbio/bigslice/metrics"
	"verifh/ev"
	"verifh/vsys"
)

// ---- programs --------------------------------------------------------------

const nKeys = 4

type progSpec struct {
	name    string
	shuffle bool
}

var progs = []progSpec{
	{"map", false},
	{"map+filter+map", false},
	{"map+2counters", false},
	{"map+reduce", true},
	{"map+reduce+map+filter", true},
	{"map+reshuffle+filter", true},
}

func e2eData(nrows int) (keys, vals []int) {
	keys, vals = make([]int, nrows), make([]int, nrows)
	for i := range keys {
		keys[i] = i % nKeys
		vals[i] = 1
	}
	return
}

func incr(ctx context.Context, c int, n int64) { ctr[c].Incr(metrics.ContextScope(ctx), n) }

// fE2E builds program prog over nrows rows in nshard shards. Every user
// function increments a counter exactly once per row it is called for.
var fE2E = bigslice.Func(func(nshard, nrows, prog int) bigslice.Slice {
	keys, vals := e2eData(nrows)
	s := bigslice.Const(nshard, keys, vals)
	switch prog {
	case 0:
		s = bigslice.Map(s, func(ctx context.Context, k, v int) (int, int) { incr(ctx, 0, 1); return k, v })
	case 1:
		s = bigslice.Map(s, func(ctx context.Context, k, v int) (int, int) { incr(ctx, 0, 1); return k, v })
		s = bigslice.Filter(s, func(ctx context.Context, k, v int) bool { incr(ctx, 1, 1); return k%2 == 0 })
		s = bigslice.Map(s, func(ctx context.Context, k, v int) (int, int) { incr(ctx, 2, -1); return k, v })
	case 2:
		s = bigslice.Map(s, func(ctx context.Context, k, v int) (int, int) { incr(ctx, 0, 1); incr(ctx, 2, 1); return k, v })
	case 3:
		s = bigslice.Map(s, func(ctx context.Context, k, v int) (int, int) { incr(ctx, 0, 1); return k, v })
		s = bigslice.Reduce(s, func(a, b int) int { return a + b })
	case 4:
		s = bigslice.Map(s, func(ctx context.Context, k, v int) (int, int) { incr(ctx, 0, 1); return k, v })
		s = bigslice.Reduce(s, func(a, b int) int { return a + b })
		s = bigslice.Map(s, func(ctx context.Context, k, v int) (int, int) { incr(ctx, 1, 1); return k, v })
		s = bigslice.Filter(s, func(ctx context.Context, k, v int) bool { incr(ctx, 2, -1); return k > 0 })
	case 5:
		s = bigslice.Map(s, func(ctx context.Context, k, v int) (int, int) { incr(ctx, 0, 1); return k, v })
		s = bigslice.Reshuffle(s)
		s = bigslice.Filter(s, func(ctx context.Context, k, v int) bool { incr(ctx, 1, 1); return k%2 == 1 })
	}
	return s
})

// expected returns the increments performed while computing the program: plain
// counting over the input rows (the reference), plus the number of result rows.
func expected(nrows, prog int) (want [3]int64, outRows int) {
	keys, _ := e2eData(nrows)
	distinct := map[int]bool{}
	for _, k := range keys {
		distinct[k] = true
	}
	n := int64(nrows)
	switch prog {
	case 0:
		want[0] = n
		outRows = nrows
	case 1:
		want[0], want[1] = n, n
		for _, k := range keys {
			if k%2 == 0 {
				want[2]--
				outRows++
			}
		}
	case 2:
		want[0], want[2] = n, n
		outRows = nrows
	case 3:
		want[0] = n
		outRows = len(distinct)
	case 4:
		want[0] = n
		want[1] = int64(len(distinct))
		want[2] = -int64(len(distinct))
		for k := range distinct {
			if k > 0 {
				outRows++
			}
		}
	case 5:
		want[0], want[1] = n, n
		for _, k := range keys {
			if k%2 == 1 {
				outRows++
			}
		}
	}
	return
}

// ---- running ---------------------------------------------------------------

type e2eCase struct {
	local               bool
	prog, nshard, nrows int
}

func (c e2eCase) execName() string {
	if c.local {
		return "local"
	}
	return "cluster"
}

func runE2E(r *ev.Run, cov ev.Coverage) {
	vsys.Quiet()
	vsys.FastRetries()
	// only failure-free runs are judged; under CPU starvation keepalives can time
	// out, so do not let "too many consecutive losses" turn a slow run into an error
	exec.VerifSetMaxConsecutiveLost(false)
	// small vectors (4 rows; the combiner needs a power of two) so that 7 and 20 rows travel in several batches
	if err := flag.Set("bigslice-internal-default-chunk-rows", "4"); err != nil {
		ev.Fatal("cannot set chunk rows: %v", err)
	}
	rowCounts := []int{0, 1, 7}
	if r.Thorough() {
		rowCounts = []int{0, 1, 2, 3, 4, 7, 20}
	}
	var cases []e2eCase
	for _, local := range []bool{true, false} {
		for prog := range progs {
			for _, nrows := range rowCounts {
				for nshard := 1; nshard <= 3; nshard++ {
					cases = append(cases, e2eCase{local, prog, nshard, nrows})
				}
			}
		}
	}
	ctx := context.Background()
	sys := vsys.New(2)
	sessLocal := exec.Start(exec.Local, exec.Parallelism(4))
	sessCluster := exec.Start(exec.Bigmachine(sys), exec.Parallelism(4))
	defer sessLocal.Shutdown()
	defer sessCluster.Shutdown()

	outcomes := ev.NewCounter()
	var runs, nontrivial, shuffleRuns, clusterRuns, multiTask, notFF int
	budget := 5 * time.Minute
	if r.Thorough() {
		budget = 15 * time.Minute
	}
	for _, c := range cases {
		if r.OverBudget(budget) {
			r.NotExhaustive("e2e: budget hit")
			break
		}
		want, wantRows := expected(c.nrows, c.prog)
		var (
			got       [3]int64
			got2      [3]int64
			rows      int
			tasks     []string
			failFree  bool
			runErr    error
			attempts  int
			workerRun int
		)
		for attempts = 1; attempts <= 3; attempts++ {
			sess := sessLocal
			if !c.local {
				sess = sessCluster
			}
			before := sys.Count("Worker.Run")
			killedBefore := len(sys.Killed())
			var res *exec.Result
			res, runErr = sess.Run(ctx, fE2E, c.nshard, c.nrows, c.prog)
			if runErr != nil {
				break
			}
			rows = 0
			sc := res.Scanner()
			var k, v int
			for sc.Scan(ctx, &k, &v) {
				rows++
			}
			if err := sc.Err(); err != nil {
				runErr = err
			}
			sc.Close()
			tasks = exec.VerifResultTaskStates(res)
			workerRun = sys.Count("Worker.Run") - before
			// failure-free = no machine lost and every task ran exactly once
			failFree = len(sys.Killed()) == killedBefore
			for _, t := range tasks {
				if !strings.HasSuffix(t, "=OK") {
					failFree = false
				}
			}
			if !c.local && workerRun != len(tasks) {
				failFree = false
			}
			scope := res.Scope()
			for i := 0; i < nReg; i++ {
				got[i] = ctr[i].Value(scope)
			}
			scope2 := res.Scope() // asking again must not re-merge
			for i := 0; i < nReg; i++ {
				got2[i] = ctr[i].Value(scope2)
			}
			if failFree || runErr != nil {
				break
			}
		}
		runs++
		name := fmt.Sprintf("%s/%s", c.execName(), progs[c.prog].name)
		detail := map[string]interface{}{"executor": c.execName(), "program": progs[c.prog].name, "shards": c.nshard, "rows": c.nrows,
			"want": want, "got": got, "got_second_call": got2, "tasks": tasks, "worker_run_rpcs": workerRun}
		if runErr != nil {
			// A failure-free program must run; an error here is not a verdict about
			// metrics, it means the harness could not observe anything.
			// Exception: the run failed because the scope could not be transported.
			if msg := runErr.Error(); strings.Contains(msg, "incompatible metric set") || strings.Contains(msg, "metrics.Scope") {
				detail["error"] = msg
				r.Violate(fmt.Sprintf("C20/e2e/%s/scope-transport-error", c.execName()),
					fmt.Sprintf("failure-free run of %s on the %s executor failed while transporting the task scope: %s", progs[c.prog].name, c.execName(), tail(msg, 300)), detail)
				continue
			}
			ev.Fatal("e2e run %s shards=%d rows=%d failed: %v", name, c.nshard, c.nrows, runErr)
		}
		if !failFree {
			// the statement only speaks about failure-free runs
			notFF++
			r.NotExhaustive(fmt.Sprintf("e2e %s shards=%d rows=%d: no failure-free run in 3 attempts (tasks re-run); not judged", name, c.nshard, c.nrows))
			continue
		}
		if rows != wantRows {
			ev.Fatal("e2e reference disagrees with the program about result rows (%s shards=%d rows=%d): got %d want %d", name, c.nshard, c.nrows, rows, wantRows)
		}
		if !c.local {
			clusterRuns++
		}
		if progs[c.prog].shuffle {
			shuffleRuns++
		}
		if len(tasks) > 1 {
			multiTask++
		}
		if c.nrows > 0 {
			nontrivial++
		}
		outcomes.Add(fmt.Sprint(got))
		class := func(i int, g int64) string {
			w := want[i]
			switch {
			case g == w:
				return ""
			case w != 0 && g == 0:
				return "lost"
			case w != 0 && g == 2*w:
				return "doubled"
			case abs(g) < abs(w):
				return "too-small"
			default:
				return "too-large"
			}
		}
		pipeClass := "no-shuffle"
		if progs[c.prog].shuffle {
			pipeClass = "with-shuffle"
		}
		for i := 0; i < nReg; i++ {
			if cl := class(i, got[i]); cl != "" {
				r.Violate(fmt.Sprintf("C20/e2e/%s/%s/counter-%s", c.execName(), pipeClass, cl),
					fmt.Sprintf("failure-free run of %s on the %s executor (%d shards, %d rows): Result.Scope() reports counter c%d = %d, but the user functions performed increments summing to %d", progs[c.prog].name, c.execName(), c.nshard, c.nrows, i, got[i], want[i]), detail)
			} else if got2[i] != got[i] {
				r.Violate(fmt.Sprintf("C20/e2e/%s/second-Scope-call-differs", c.execName()),
					fmt.Sprintf("Result.Scope() called twice on the same result reports c%d = %d then %d", i, got[i], got2[i]), detail)
			}
		}
		if runs == 1 || (c.prog == 4 && c.nshard == 3 && c.nrows == 7) {
			r.Sample(detail)
		}
	}
	cov["e2e_runs"] = runs
	cov["e2e_runs_with_rows"] = nontrivial
	cov["e2e_cluster_runs"] = clusterRuns
	cov["e2e_runs_with_shuffle"] = shuffleRuns
	cov["e2e_runs_with_more_than_one_task"] = multiTask
	cov["e2e_not_failure_free_skipped"] = notFF
	cov["e2e_distinct_counter_vectors"] = outcomes.Distinct()
	cov["e2e_cluster_worker_run_rpcs"] = sys.Count("Worker.Run")
	cov["e2e_space"] = fmt.Sprintf("%d programs × rows %v × shards 1..3 × {local, cluster}", len(progs), rowCounts)
}

func abs(x int64) int64 {
	if x < 0 {
		return -x
	}
	return x
}
