// C20 — user metrics are merged additively and survive transport unchanged.
//
// Two parts (DESIGN.md §5 C20):
//
//  1. seq: bounded-exhaustive exploration of operation sequences on real
//     metrics.Scope values against a plain map model (seq.go). The number of
//     registered counters (1, 2, 3) is fixed at init time per process, so the
//     exploration for each count runs in a re-exec'ed child (VERIF_C20_NC=k).
//  2. e2e: bigslice programs whose user functions increment counters once per
//     row, on the local executor and on the in-process cluster (e2e.go); the
//     counters of Result.Scope() must equal the number of rows processed.
//
// A concurrent-CAS scenario (two threads Incr the same fresh scope under the
// controlled scheduler) is NOT part of this file; see casScenarioTODO.
package main

import (
	"bytes"
	"encoding/json"
	"flag"
	"fmt"
	"os"
	osexec "os/exec"
	"sort"
	"strconv"
	"sync"
	"time"

	"github.com/grailbio/bigslice/metrics"
	"verifh/ev"
)

var (
	flagChild  = flag.Bool("c20-child", false, "internal: explore sequences for VERIF_C20_NC registered counters, print JSON")
	flagCBudg  = flag.Duration("c20-child-budget", 0, "internal: soft budget of the child")
	flagOnly   = flag.String("c20-only", "", "run only this part: seq | e2e")
	flagSeqMax = flag.Int("c20-depth", 0, "override the sequence depth")
)

// nReg is the number of counters this process registers (at init, like user
// programs do). The parent process registers 3 (used by the e2e programs).
var nReg = func() int {
	n, _ := strconv.Atoi(os.Getenv("VERIF_C20_NC"))
	if n < 1 || n > 3 {
		n = 3
	}
	return n
}()

// ctr are the registered counters, in registration order.
var ctr = func() []metrics.Counter {
	cs := make([]metrics.Counter, nReg)
	for i := range cs {
		cs[i] = metrics.NewCounter()
	}
	return cs
}()

// TODO(C20-CAS): hook for the schedule-exhaustive scenario "two threads Incr
// the same fresh scope" (the CAS loops in Scope.instance and Scope.list,
// metrics/scope.go:75-95,122-133), to be run under the controlled scheduler
// (sched build flavour). Intentionally not implemented here; when added it
// should be called from main() after the seq part and contribute its own
// states/transitions to the coverage.
func casScenarioTODO(r *ev.Run) {}

func main() {
	if hasFlag("-c20-child") || hasFlag("--c20-child") {
		flag.Parse()
		childMain()
		return
	}
	r := ev.Start("C20", "model_checking")
	if r.Replay != "" {
		ev.Fatal("replay: re-run ./run C20 %s; the violation detail contains the full operation sequence (file %s)", r.Tier, r.Replay)
	}
	if got := metrics.VerifC20NumRegistered(); got != nReg {
		ev.Fatal("registry has %d metrics, expected %d", got, nReg)
	}
	cov := ev.Coverage{}
	if *flagOnly == "" || *flagOnly == "seq" {
		runSeqChildren(r, cov)
	} else {
		cov["states"] = 1
	}
	if *flagOnly == "" || *flagOnly == "e2e" {
		runE2E(r, cov)
		runReuseE2E(r, cov)
	}
	// Layer S: concurrent use of one scope (CAS creation of instances) under the controlled
	// scheduler, computed by the sibling binary c20s (flavour schedm: metrics' atomics instrumented).
	ev.MergeLayer(r, cov, "c20s-schedm", "layerS_concurrent_scope")
	// real sessions (local and one-machine cluster) under the controlled scheduler: the
	// counters of a result must be complete the moment Run returns
	ev.MergeLayer(r, cov, "c19-sched", "layerS_result_scope_after_run")
	cov["rule"] = "seq: every sequence over {Incr(c,s,±1), Value(c,s), Merge(s,t), Reset(s,t), Reset(s,nil), gob(s), transport(s)} with 1..3 registered counters and 3 scopes up to max_depth (thorough: one representative per canonical real state = presence, instance sharing and value of every (scope,counter) slot), each trace replayed on fresh real scopes and compared with a map model after every step; e2e: programs × rows × shards × executors, counters of Result.Scope() vs rows processed"
	r.Finish(cov)
}

func hasFlag(name string) bool {
	for _, a := range os.Args[1:] {
		if a == name || a == name+"=true" {
			return true
		}
	}
	return false
}

// ---- parent side of the sequence exploration -------------------------------

func runSeqChildren(r *ev.Run, cov ev.Coverage) {
	depth := 3
	budget := 3 * time.Minute
	if r.Thorough() {
		depth = 5
		budget = 12 * time.Minute
	}
	if *flagSeqMax > 0 {
		depth = *flagSeqMax
	}
	if r.Budget != 0 {
		budget = r.Budget
	}
	exe, err := os.Executable()
	if err != nil {
		ev.Fatal("os.Executable: %v", err)
	}
	results := make([]*childResult, 4)
	var wg sync.WaitGroup
	for nc := 1; nc <= 3; nc++ {
		nc := nc
		wg.Add(1)
		go func() {
			defer wg.Done()
			d := depth
			if r.Thorough() && *flagSeqMax == 0 {
				d = depth + (3 - nc) // fewer counters => smaller alphabet => deeper
			}
			cmd := osexec.Command(exe, "-c20-child", "-tier", r.Tier, "-c20-depth", strconv.Itoa(d), "-c20-child-budget", budget.String())
			cmd.Env = append(os.Environ(), "VERIF_C20_NC="+strconv.Itoa(nc))
			var out, errb bytes.Buffer
			cmd.Stdout, cmd.Stderr = &out, &errb
			if err := cmd.Run(); err != nil {
				ev.Fatal("seq child nc=%d failed: %v\n%s", nc, err, tail(errb.String(), 4000))
			}
			var cr childResult
			if err := json.Unmarshal(out.Bytes(), &cr); err != nil {
				ev.Fatal("seq child nc=%d: bad output: %v\n%s", nc, err, tail(out.String(), 2000))
			}
			results[nc] = &cr
		}()
	}
	wg.Wait()
	var states, transitions, steps int64
	perNC := map[string]interface{}{}
	mech := map[string]int64{}
	var viol []childViolation
	for nc := 1; nc <= 3; nc++ {
		cr := results[nc]
		if cr.NC != nc || cr.Registered != nc {
			ev.Fatal("seq child nc=%d registered %d counters", nc, cr.Registered)
		}
		states += cr.States
		transitions += cr.Traces
		steps += cr.Steps
		perNC[strconv.Itoa(nc)] = map[string]interface{}{
			"ops": cr.NumOps, "depth": cr.Depth, "states": cr.States, "traces": cr.Traces, "level_frontier": cr.Levels,
			"max_abs_value": cr.MaxAbs, "wall_s": cr.WallS, "dedup": cr.Dedup,
		}
		for k, v := range cr.Mech {
			mech[k] += v
		}
		for _, why := range cr.NotExhaustive {
			r.NotExhaustive(fmt.Sprintf("seq nc=%d: %s", nc, why))
		}
		viol = append(viol, cr.Violations...)
		if nc == 3 {
			for _, s := range cr.Samples {
				r.Sample(s)
			}
		}
	}
	sort.SliceStable(viol, func(i, j int) bool {
		if len(viol[i].Seq) != len(viol[j].Seq) {
			return len(viol[i].Seq) < len(viol[j].Seq)
		}
		return viol[i].Sig < viol[j].Sig
	})
	for _, v := range viol {
		r.Violate(v.Sig, v.What, map[string]interface{}{"registered_counters": v.NC, "sequence": v.Seq, "real": v.Real, "model": v.Model, "traces_with_this_signature": v.Count})
	}
	cov["states"] = states
	cov["transitions"] = transitions
	cov["traces_validated_against_impl"] = transitions
	cov["op_applications_on_real_scopes"] = steps
	cov["max_depth"] = results[1].Depth
	cov["depth_with_3_counters"] = results[3].Depth
	cov["per_registered_counters"] = perNC
	cov["mechanisms_exercised"] = mech
}

func tail(s string, n int) string {
	if len(s) > n {
		return s[len(s)-n:]
	}
	return s
}
