package main

import (
	"context"
	"fmt"
	"strings"

	"github.com/grailbio/bigslice"
	"github.com/grailbio/bigslice/exec"
	"verifh/ev"
	"verifh/vsys"
)

// Histories in which a result's tasks are reused or recomputed (failure-free: nothing
// is lost except by an explicit Discard): the counters reported for a result are the
// increments performed while computing it, ONCE PER TASK — a task that is computed
// again reports the increments of its (latest) computation, not an accumulation.

// fUse consumes a result: a pipelined Map that increments counter 1 once per row.
var fUse = bigslice.Func(func(r bigslice.Slice) bigslice.Slice {
	return bigslice.Map(r, func(ctx context.Context, k, v int) (int, int) { incr(ctx, 1, 1); return k, v })
})

func scanCount(ctx context.Context, res *exec.Result) (int, error) {
	sc := res.Scanner()
	defer sc.Close()
	var k, v, n int
	for sc.Scan(ctx, &k, &v) {
		n++
	}
	return n, sc.Err()
}

func runReuseE2E(r *ev.Run, cov ev.Coverage) {
	ctx := context.Background()
	const nrows = 7
	type variant struct {
		name    string
		discard bool // discard the source result before it is used
		twice   bool // use it twice
	}
	variants := []variant{{"reuse", false, false}, {"reuse-twice", false, true}, {"discard-then-use", true, false}, {"discard-then-use-twice", true, true}}
	runs, nontrivial := 0, 0
	// executors: local; a cluster of 2-proc machines; ONE 4-proc machine (a recomputed
	// task lands on the worker that ran it before). Source programs: "map" (prog 0) and
	// "map+reduce" (prog 3: the counting tasks have a map-side combiner, which takes a
	// different path through the worker).
	type cfg struct {
		execName string
		procs    int
		srcProg  int
	}
	var cfgs []cfg
	for _, sp := range []int{0, 3} {
		cfgs = append(cfgs, cfg{"local", 0, sp}, cfg{"cluster", 2, sp}, cfg{"cluster-1machine", 4, sp})
	}
	for _, c := range cfgs {
		local := c.procs == 0
		_, srcRows := expected(nrows, c.srcProg)
		for _, v := range variants {
			for nshard := 1; nshard <= 3; nshard++ {
				execName := c.execName
				if c.srcProg != 0 {
					execName += "/src=" + progs[c.srcProg].name
				}
				var sys *vsys.System
				var sess *exec.Session
				if local {
					sess = exec.Start(exec.Local, exec.Parallelism(4))
				} else {
					sys = vsys.New(c.procs)
					if c.procs == 4 {
						sys.MaxMachines = 1
					}
					sess = exec.Start(exec.Bigmachine(sys), exec.Parallelism(4))
				}
				fail := func(err error, what string) {
					ev.Fatal("reuse e2e %s/%s shards=%d: %s: %v", execName, v.name, nshard, what, err)
				}
				res, err := sess.Run(ctx, fE2E, nshard, nrows, c.srcProg) // counter 0 once per input row
				if err != nil {
					fail(err, "source run")
				}
				if v.discard {
					res.Discard(ctx)
				}
				uses := 1
				if v.twice {
					uses = 2
				}
				for u := 0; u < uses; u++ {
					res2, err := sess.Run(ctx, fUse, res)
					if err != nil {
						fail(err, "consumer run")
					}
					if n, err := scanCount(ctx, res2); err != nil || n != srcRows {
						fail(err, fmt.Sprintf("consumer scan delivered %d rows", n))
					}
					if !local && len(sys.Killed()) > 0 {
						r.NotExhaustive(fmt.Sprintf("reuse e2e %s/%s shards=%d: a machine was lost; not judged", execName, v.name, nshard))
						break
					}
					runs++
					nontrivial++
					sc := res2.Scope()
					got0, got1 := ctr[0].Value(sc), ctr[1].Value(sc)
					detail := map[string]interface{}{"executor": execName, "history": v.name, "shards": nshard, "rows": nrows, "use": u + 1,
						"c0_source_map": got0, "c1_consumer_map": got1, "tasks": strings.Join(exec.VerifResultTaskStates(res2), " ")}
					if got0 != nrows {
						r.Violate(fmt.Sprintf("C20/e2e-reuse/%s/%s/source-counter-not-once-per-task", execName, v.name),
							fmt.Sprintf("%s executor, history %s (%d shards, %d rows), use #%d: the result's scope reports c0 = %d for the source tasks, whose (latest) computation performed %d increments", execName, v.name, nshard, nrows, u+1, got0, nrows), detail)
					}
					if got1 != int64(srcRows) {
						r.Violate(fmt.Sprintf("C20/e2e-reuse/%s/%s/consumer-counter-wrong", execName, v.name),
							fmt.Sprintf("%s executor, history %s (%d shards, %d rows), use #%d: c1 = %d, the consumer's functions performed %d increments", execName, v.name, nshard, nrows, u+1, got1, srcRows), detail)
					}
					if runs == 1 {
						r.Sample(detail)
					}
				}
				sess.Shutdown()
			}
		}
	}
	cov["e2e_reuse_runs"] = runs
	cov["e2e_reuse_space"] = "histories {reuse, reuse twice, discard then use, discard then use twice} x shards 1..3 x {local, cluster of 2-proc machines, one 4-proc machine} x source program {map, map+reduce (map-side combiner tasks)}"
}
