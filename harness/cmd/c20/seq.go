package main

import (
	"bytes"
	"encoding/binary"
	"encoding/gob"
	"encoding/json"
	"fmt"
	"hash/fnv"
	"os"
	"runtime"
	"sort"
	"strings"
	"sync"
	"sync/atomic"
	"time"

	"github.com/grailbio/bigslice/metrics"
	"verifh/ev"
)

const nScopes = 3

// sharedClass marks violations that are fully explained by "Reset(s,t) stores t's
// instances in s instead of copying their values".
const sharedClass = "Reset-shares-instances-instead-of-copying-values"

// ---- operations ------------------------------------------------------------

const (
	opIncr = iota
	opValue
	opMerge
	opReset
	opResetNil
	opGob
	opTransport
)

var kindName = []string{"Incr", "Value", "Merge", "Reset", "ResetNil", "gob", "transport"}

type op struct {
	kind    int
	c, s, t int
	d       int64
}

func (o op) String() string {
	switch o.kind {
	case opIncr:
		return fmt.Sprintf("Incr(c%d,s%d,%+d)", o.c, o.s, o.d)
	case opValue:
		return fmt.Sprintf("Value(c%d,s%d)", o.c, o.s)
	case opMerge:
		return fmt.Sprintf("s%d.Merge(s%d)", o.s, o.t)
	case opReset:
		return fmt.Sprintf("s%d.Reset(s%d)", o.s, o.t)
	case opResetNil:
		return fmt.Sprintf("s%d.Reset(nil)", o.s)
	case opGob:
		return fmt.Sprintf("gob(s%d)", o.s)
	case opTransport:
		return fmt.Sprintf("transport(s%d)", o.s)
	}
	return "?"
}

// alphabet lists every operation for nc counters, simplest first.
func alphabet(nc int) []op {
	var ops []op
	for c := 0; c < nc; c++ {
		for s := 0; s < nScopes; s++ {
			ops = append(ops, op{kind: opIncr, c: c, s: s, d: 1}, op{kind: opIncr, c: c, s: s, d: -1})
		}
	}
	for c := 0; c < nc; c++ {
		for s := 0; s < nScopes; s++ {
			ops = append(ops, op{kind: opValue, c: c, s: s})
		}
	}
	for s := 0; s < nScopes; s++ {
		for t := 0; t < nScopes; t++ {
			ops = append(ops, op{kind: opMerge, s: s, t: t})
		}
	}
	for s := 0; s < nScopes; s++ {
		for t := 0; t < nScopes; t++ {
			ops = append(ops, op{kind: opReset, s: s, t: t})
		}
	}
	for s := 0; s < nScopes; s++ {
		ops = append(ops, op{kind: opResetNil, s: s})
	}
	for s := 0; s < nScopes; s++ {
		ops = append(ops, op{kind: opGob, s: s})
	}
	for s := 0; s < nScopes; s++ {
		ops = append(ops, op{kind: opTransport, s: s})
	}
	return ops
}

// ---- the three worlds ------------------------------------------------------

// reply mirrors exec.taskRunReply: a struct carrying a Scope by value.
type reply struct {
	Vals  map[string]int64
	Scope metrics.Scope
}

// world holds the real scopes, the plain map model (the oracle) and a second
// model in which Reset(s,t) shares instances. The second model is used ONLY to
// classify a violation (is it explained by instance sharing?), never to accept.
type world struct {
	nc    int
	real  [nScopes]*metrics.Scope
	model [nScopes][]int64
	alias [nScopes][]*int64
	mech  *mechCounts
}

type mechCounts struct {
	gobNonZero, gobEmpty, mergeNonZero, mergeAbsentSrc, resetWithInstances, resetNilNonEmpty, sharedStates, valueCreates int64
}

func newWorld(nc int, mc *mechCounts) *world {
	w := &world{nc: nc, mech: mc}
	for s := range w.real {
		w.real[s] = new(metrics.Scope)
		w.model[s] = make([]int64, nc)
		w.alias[s] = make([]*int64, nc)
	}
	return w
}

func (w *world) anyNonZero(s int) bool {
	for _, v := range w.model[s] {
		if v != 0 {
			return true
		}
	}
	return false
}

// apply runs o on the real scopes and on both models. It returns a non-empty
// string if the real operation itself failed (transport error) or if an
// observation made by the operation (Value) disagrees with the model.
func (w *world) apply(o op) (fail string) {
	// --- real (a panic inside the metrics package is a failed operation)
	func() {
		defer func() {
			if e := recover(); e != nil {
				fail = fmt.Sprintf("panic: %v", e)
			}
		}()
		fail = w.applyReal(o)
	}()
	w.applyModels(o)
	return fail
}

func (w *world) applyReal(o op) string {
	var fail string
	switch o.kind {
	case opIncr:
		ctr[o.c].Incr(w.real[o.s], o.d)
	case opValue:
		if got := ctr[o.c].Value(w.real[o.s]); got != w.model[o.s][o.c] {
			fail = fmt.Sprintf("Value(c%d,s%d) = %d, model %d", o.c, o.s, got, w.model[o.s][o.c])
		}
		if w.alias[o.s][o.c] == nil {
			atomic.AddInt64(&w.mech.valueCreates, 1)
		}
	case opMerge:
		w.real[o.s].Merge(w.real[o.t])
		if w.anyNonZero(o.t) {
			atomic.AddInt64(&w.mech.mergeNonZero, 1)
		}
		for _, p := range w.alias[o.t] {
			if p == nil {
				atomic.AddInt64(&w.mech.mergeAbsentSrc, 1)
				break
			}
		}
	case opReset:
		w.real[o.s].Reset(w.real[o.t])
		for _, p := range w.alias[o.t] {
			if p != nil {
				atomic.AddInt64(&w.mech.resetWithInstances, 1)
				break
			}
		}
	case opResetNil:
		w.real[o.s].Reset(nil)
		if w.anyNonZero(o.s) {
			atomic.AddInt64(&w.mech.resetNilNonEmpty, 1)
		}
	case opGob:
		// encode -> decode into a fresh Scope, which replaces s
		var b bytes.Buffer
		if err := gob.NewEncoder(&b).Encode(w.real[o.s]); err != nil {
			fail = "gob encode: " + err.Error()
			break
		}
		n := new(metrics.Scope)
		if err := gob.NewDecoder(&b).Decode(n); err != nil {
			fail = "gob decode: " + err.Error()
			break
		}
		w.real[o.s] = n
		w.countGob(o.s)
	case opTransport:
		// the path of a task scope from worker to driver:
		// exec/bigmachine.go:769 reply.Scope.Reset(&task.Scope); gob; :438 task.Scope.Reset(&reply.Scope)
		var out reply
		out.Vals = map[string]int64{"x": 1}
		out.Scope.Reset(w.real[o.s])
		var b bytes.Buffer
		if err := gob.NewEncoder(&b).Encode(&out); err != nil {
			fail = "gob encode reply: " + err.Error()
			break
		}
		var in reply
		if err := gob.NewDecoder(&b).Decode(&in); err != nil {
			fail = "gob decode reply: " + err.Error()
			break
		}
		n := new(metrics.Scope)
		n.Reset(&in.Scope)
		w.real[o.s] = n
		w.countGob(o.s)
	}
	return fail
}

func (w *world) applyModels(o op) {
	// --- plain model (the oracle)
	switch o.kind {
	case opIncr:
		w.model[o.s][o.c] += o.d
	case opMerge:
		src := append([]int64(nil), w.model[o.t]...)
		for c := range src {
			w.model[o.s][c] += src[c]
		}
	case opReset:
		copy(w.model[o.s], append([]int64(nil), w.model[o.t]...))
	case opResetNil:
		for c := range w.model[o.s] {
			w.model[o.s][c] = 0
		}
	}
	// --- instance-sharing model (classification only)
	switch o.kind {
	case opIncr, opValue:
		if w.alias[o.s][o.c] == nil {
			w.alias[o.s][o.c] = new(int64)
		}
		*w.alias[o.s][o.c] += o.d
	case opMerge:
		for c := 0; c < w.nc; c++ {
			src := w.alias[o.t][c]
			if src == nil {
				continue
			}
			if w.alias[o.s][c] == nil {
				w.alias[o.s][c] = new(int64)
			}
			*w.alias[o.s][c] += *src
		}
	case opReset:
		for c := 0; c < w.nc; c++ {
			w.alias[o.s][c] = w.alias[o.t][c]
		}
	case opResetNil:
		for c := 0; c < w.nc; c++ {
			w.alias[o.s][c] = nil
		}
	case opGob, opTransport:
		for c := 0; c < w.nc; c++ {
			if p := w.alias[o.s][c]; p != nil {
				v := *p
				w.alias[o.s][c] = &v
			}
		}
	}
}

func (w *world) countGob(s int) {
	if w.anyNonZero(s) {
		atomic.AddInt64(&w.mech.gobNonZero, 1)
	} else {
		atomic.AddInt64(&w.mech.gobEmpty, 1)
	}
}

// observation of the real world without side effects
type obs struct {
	vals    [nScopes][]int64
	present [nScopes][]bool
	ptr     [nScopes][]uintptr
	bad     string
}

func (w *world) peek() obs {
	var o obs
	for s := range w.real {
		_, cells := metrics.VerifC20Peek(w.real[s])
		if len(cells) != w.nc {
			o.bad = fmt.Sprintf("scope s%d exposes %d metric slots, %d registered", s, len(cells), w.nc)
			return o
		}
		o.vals[s] = make([]int64, w.nc)
		o.present[s] = make([]bool, w.nc)
		o.ptr[s] = make([]uintptr, w.nc)
		for c, cell := range cells {
			if cell.Present && !cell.Counter {
				o.bad = fmt.Sprintf("slot (s%d,c%d) holds a non-counter instance", s, c)
				return o
			}
			o.vals[s][c], o.present[s][c], o.ptr[s][c] = cell.Value, cell.Present, cell.Ptr
		}
	}
	return o
}

// stateKey is the canonical dump of the real state: for every (scope,counter)
// slot whether an instance is present, which earlier slot it shares its
// instance with, and its value. (Storage-list allocation is not part of the
// key: every operation allocates it on first touch, so nil and empty lists have
// the same futures.)
func (o *obs) stateKey() (key string, shared bool, maxAbs int64) {
	b := make([]byte, 0, 48)
	var seen []uintptr
	for s := 0; s < nScopes; s++ {
		for c := range o.vals[s] {
			if !o.present[s][c] {
				b = append(b, 0)
				continue
			}
			cls := -1
			for i, p := range seen {
				if p == o.ptr[s][c] {
					cls = i
					shared = true
					break
				}
			}
			if cls < 0 {
				cls = len(seen)
				seen = append(seen, o.ptr[s][c])
			}
			b = append(b, byte(1+cls))
			b = binary.AppendVarint(b, o.vals[s][c])
			if v := o.vals[s][c]; v > maxAbs {
				maxAbs = v
			} else if -v > maxAbs {
				maxAbs = -v
			}
		}
	}
	return string(b), shared, maxAbs
}

func (w *world) modelDump() [][]int64 {
	out := make([][]int64, nScopes)
	for s := range out {
		out[s] = append([]int64{}, w.model[s]...)
	}
	return out
}

func (w *world) aliasExplains(o *obs) bool {
	for s := 0; s < nScopes; s++ {
		for c := 0; c < w.nc; c++ {
			var v int64
			if p := w.alias[s][c]; p != nil {
				v = *p
			}
			if v != o.vals[s][c] {
				return false
			}
		}
	}
	return true
}

// compare returns "" if the real values equal the plain model; otherwise a
// class (for the signature) and a description.
func (w *world) compare(o *obs, last op) (class, what string) {
	if o.bad != "" {
		return "storage-shape", o.bad
	}
	var diffs []string
	otherChanged := false
	for s := 0; s < nScopes; s++ {
		for c := 0; c < w.nc; c++ {
			if o.vals[s][c] != w.model[s][c] {
				diffs = append(diffs, fmt.Sprintf("(s%d,c%d) real=%d model=%d", s, c, o.vals[s][c], w.model[s][c]))
				if s != last.s {
					otherChanged = true
				}
			}
		}
	}
	if len(diffs) == 0 {
		return "", ""
	}
	what = fmt.Sprint(diffs)
	if w.aliasExplains(o) {
		return sharedClass + "/revealed-by-" + kindName[last.kind], what
	}
	rel := ""
	if last.kind == opMerge || last.kind == opReset {
		rel = "/distinct-scopes"
		if last.s == last.t {
			rel = "/self"
		}
	}
	if otherChanged {
		return kindName[last.kind] + rel + "/scope-other-than-target-differs", what
	}
	return kindName[last.kind] + rel + "/target-value-differs", what
}

// ---- exploration -----------------------------------------------------------

type childViolation struct {
	Sig   string      `json:"sig"`
	What  string      `json:"what"`
	NC    int         `json:"nc"`
	Seq   []string    `json:"seq"`
	Real  interface{} `json:"real"`
	Model interface{} `json:"model"`
	Count int64       `json:"count"`
	hist  string
}

type childResult struct {
	NC            int              `json:"nc"`
	Registered    int              `json:"registered"`
	NumOps        int              `json:"num_ops"`
	Depth         int              `json:"depth"`
	Dedup         bool             `json:"dedup"`
	States        int64            `json:"states"`
	Traces        int64            `json:"traces"`
	Steps         int64            `json:"steps"`
	Levels        []int            `json:"levels"`
	MaxAbs        int64            `json:"max_abs"`
	Mech          map[string]int64 `json:"mech"`
	Violations    []childViolation `json:"violations"`
	Samples       []interface{}    `json:"samples"`
	NotExhaustive []string         `json:"not_exhaustive"`
	WallS         float64          `json:"wall_s"`
}

const nShards = 256

type shardedMap struct {
	sh [nShards]struct {
		mu sync.Mutex
		m  map[string]string
	}
}

func newShardedMap() *shardedMap {
	m := &shardedMap{}
	for i := range m.sh {
		m.sh[i].m = map[string]string{}
	}
	return m
}

func shardOf(k string) int {
	h := fnv.New32a()
	h.Write([]byte(k))
	return int(h.Sum32() % nShards)
}

// putMin keeps the lexicographically smallest history for key k.
func (m *shardedMap) putMin(k, hist string) {
	s := &m.sh[shardOf(k)]
	s.mu.Lock()
	if old, ok := s.m[k]; !ok || hist < old {
		s.m[k] = hist
	}
	s.mu.Unlock()
}

func (m *shardedMap) has(k string) bool {
	s := &m.sh[shardOf(k)]
	s.mu.Lock()
	_, ok := s.m[k]
	s.mu.Unlock()
	return ok
}

func (m *shardedMap) len() int {
	n := 0
	for i := range m.sh {
		n += len(m.sh[i].m)
	}
	return n
}

func seqStrings(ops []op, hist string) []string {
	out := make([]string, len(hist))
	for i := range hist {
		out[i] = ops[hist[i]].String()
	}
	return out
}

func childMain() {
	t0 := time.Now()
	nc := nReg
	thorough := false
	if f := flagLookup("tier"); f == "thorough" {
		thorough = true
	}
	depth := *flagSeqMax
	if depth <= 0 {
		depth = 3
	}
	budget := *flagCBudg
	if budget == 0 {
		budget = 10 * time.Minute
	}
	ops := alphabet(nc)
	res := &childResult{NC: nc, Registered: metrics.VerifC20NumRegistered(), NumOps: len(ops), Depth: depth, Dedup: thorough}
	var mc mechCounts
	var (
		mu       sync.Mutex
		viol     = map[string]*childViolation{}
		maxAbs   int64
		traces   int64
		steps    int64
		overtime int32
	)
	seen := newShardedMap() // canonical state -> smallest history reaching it first
	// level 0: the empty history
	{
		w := newWorld(nc, &mc)
		o := w.peek()
		k, _, _ := o.stateKey()
		seen.putMin(k, "")
	}
	frontier := []string{""}
	res.Levels = append(res.Levels, 1)
	workers := runtime.NumCPU()
	if workers > 6 {
		workers = 6 // three children share the machine
	}
	for d := 1; d <= depth && len(frontier) > 0; d++ {
		next := newShardedMap()
		var cleanMu sync.Mutex
		var clean []string // all clean histories of this level (no de-duplication mode)
		ev.Parallel(len(frontier), workers, func(i int) {
			if atomic.LoadInt32(&overtime) == 1 {
				return
			}
			if i%64 == 0 && time.Since(t0) > budget {
				atomic.StoreInt32(&overtime, 1)
				return
			}
			h := frontier[i]
			var localClean []string
			for oi := range ops {
				hist := h + string([]byte{byte(oi)})
				w := newWorld(nc, &mc)
				var class, what string
				var o obs
				last := op{}
				for si := 0; si < len(hist); si++ {
					last = ops[hist[si]]
					fail := w.apply(last)
					atomic.AddInt64(&steps, 1)
					o = w.peek()
					if fail != "" {
						class, what = kindName[last.kind]+"/operation-failed-or-observed-wrong-value", fail
						if cc, _ := w.compare(&o, last); cc != "" && w.aliasExplains(&o) {
							class = sharedClass + "/revealed-by-" + kindName[last.kind]
						}
					} else {
						class, what = w.compare(&o, last)
					}
					if class != "" {
						if si != len(hist)-1 {
							// cannot happen: prefixes in the frontier are clean and replay is deterministic
							ev.Fatal("NONDETERMINISM: prefix %v of a clean history failed on replay: %s", seqStrings(ops, hist[:si+1]), what)
						}
						break
					}
				}
				atomic.AddInt64(&traces, 1)
				key, shared, ma := o.stateKey()
				if class == "" {
					// end of trace: the public read API must agree as well, and reading
					// must not change any value
					func() {
						defer func() {
							if e := recover(); e != nil {
								class, what = "public-Value-panics", fmt.Sprintf("panic: %v", e)
							}
						}()
						for s := 0; s < nScopes && class == ""; s++ {
							for c := 0; c < nc; c++ {
								if got := ctr[c].Value(w.real[s]); got != w.model[s][c] {
									class, what = "public-Value-differs-from-model", fmt.Sprintf("Value(c%d,s%d)=%d model=%d", c, s, got, w.model[s][c])
									break
								}
							}
						}
					}()
					if class == "" {
						o2 := w.peek()
						if c2, w2 := w.compare(&o2, last); c2 != "" {
							class, what = "reading-changed-values/"+c2, w2
						}
					}
				}
				if class != "" {
					sig := fmt.Sprintf("C20/seq/nc=%d/%s", nc, class)
					if strings.HasPrefix(class, sharedClass) {
						// one root cause, one signature (independent of nc and of the revealing op)
						sig = "C20/seq/" + sharedClass
					}
					mu.Lock()
					v := viol[sig]
					if v == nil {
						v = &childViolation{Sig: sig, NC: nc}
						viol[sig] = v
					}
					v.Count++
					if v.hist == "" || len(hist) < len(v.hist) || (len(hist) == len(v.hist) && hist < v.hist) {
						v.hist = hist
						v.Seq = seqStrings(ops, hist)
						v.What = fmt.Sprintf("with %d registered counters, after %v the real scopes differ from the map model: %s", nc, v.Seq, what)
						v.Real = o.vals
						v.Model = w.modelDump()
					}
					mu.Unlock()
					continue
				}
				if shared {
					atomic.AddInt64(&mc.sharedStates, 1)
				}
				mu.Lock()
				if ma > maxAbs {
					maxAbs = ma
				}
				mu.Unlock()
				if thorough {
					if !seen.has(key) {
						next.putMin(key, hist)
					}
				} else {
					if !seen.has(key) {
						next.putMin(key, hist)
					}
					localClean = append(localClean, hist)
				}
			}
			if !thorough {
				cleanMu.Lock()
				clean = append(clean, localClean...)
				cleanMu.Unlock()
			}
		})
		if atomic.LoadInt32(&overtime) == 1 {
			res.NotExhaustive = append(res.NotExhaustive, fmt.Sprintf("budget %v hit at depth %d (frontier %d)", budget, d, len(frontier)))
		}
		// merge newly found states
		var nf []string
		for i := range next.sh {
			for k, h := range next.sh[i].m {
				seen.putMin(k, h)
				nf = append(nf, h)
			}
		}
		if thorough {
			frontier = nf
		} else {
			frontier = clean
		}
		sort.Strings(frontier)
		res.Levels = append(res.Levels, len(frontier))
		if atomic.LoadInt32(&overtime) == 1 {
			break
		}
	}
	res.States = int64(seen.len())
	res.Traces = traces
	res.Steps = steps
	res.MaxAbs = maxAbs
	res.Mech = map[string]int64{
		"gob_or_transport_of_scope_with_nonzero_value": mc.gobNonZero,
		"gob_or_transport_of_all_zero_scope":           mc.gobEmpty,
		"merge_from_scope_with_nonzero_value":          mc.mergeNonZero,
		"merge_from_scope_with_absent_instance":        mc.mergeAbsentSrc,
		"reset_to_scope_holding_instances":             mc.resetWithInstances,
		"reset_nil_of_nonzero_scope":                   mc.resetNilNonEmpty,
		"value_read_creating_instance":                 mc.valueCreates,
		"clean_traces_ending_in_state_with_shared_instances": mc.sharedStates,
	}
	var sigs []string
	for s := range viol {
		sigs = append(sigs, s)
	}
	sort.Strings(sigs)
	for _, s := range sigs {
		res.Violations = append(res.Violations, *viol[s])
	}
	// written-out samples: the deepest few frontier histories
	for i := 0; i < len(frontier) && i < 3; i++ {
		h := frontier[i*(len(frontier)-1)/2]
		w := newWorld(nc, &mc)
		for si := 0; si < len(h); si++ {
			w.apply(ops[h[si]])
		}
		o := w.peek()
		res.Samples = append(res.Samples, map[string]interface{}{"registered_counters": nc, "sequence": seqStrings(ops, h), "real_values_scope_x_counter": o.vals, "model": w.modelDump()})
	}
	res.WallS = time.Since(t0).Seconds()
	b, _ := json.Marshal(res)
	os.Stdout.Write(b)
}

func flagLookup(name string) string {
	for i, a := range os.Args {
		if (a == "-"+name || a == "--"+name) && i+1 < len(os.Args) {
			return os.Args[i+1]
		}
	}
	return ""
}
