// c20s — schedule-exploration layer of C20: concurrent use of one metrics.Scope
// (the lock-free instance/list creation by compare-and-swap) under the vsched
// scheduler with the metrics package's atomics instrumented (flavour schedm).
//
//	c20s-schedm -layer C20 -tier quick|thorough   prints "LAYER {json}" for the c20 harness
package main

import (
	"encoding/json"
	"flag"
	"fmt"
	"os"
	"time"

	"github.com/grailbio/bigslice/metrics"
	"github.com/grailbio/bigslice/verifrt/vsched"
	"verifh/ev"
	"verifh/mc"
)

var (
	c1 = metrics.NewCounter()
	c2 = metrics.NewCounter()
)

type scen struct {
	name string
	body func() string // returns outcome; reports with vsched.Fail
}

func par(fs ...func()) {
	var wg vsched.WaitGroup
	for i, f := range fs {
		f := f
		wg.Add(1)
		vsched.Go(fmt.Sprintf("t%d", i), func() {
			defer wg.Done()
			f()
		})
	}
	wg.Wait()
}

func want(what string, got, exp int64) {
	if got != exp {
		vsched.Fail("%s = %d, want %d", what, got, exp)
	}
}

var scens = []scen{
	{"incr2-fresh", func() string {
		var s metrics.Scope
		par(func() { c1.Incr(&s, 1) }, func() { c1.Incr(&s, 1) })
		want("c1 after two concurrent increments of a fresh scope", c1.Value(&s), 2)
		return fmt.Sprint(c1.Value(&s))
	}},
	{"incr3-fresh", func() string {
		var s metrics.Scope
		par(func() { c1.Incr(&s, 1) }, func() { c1.Incr(&s, 2) }, func() { c1.Incr(&s, 4) })
		want("c1 after three concurrent increments of a fresh scope", c1.Value(&s), 7)
		return fmt.Sprint(c1.Value(&s))
	}},
	{"incr-two-counters-fresh", func() string {
		var s metrics.Scope
		par(func() { c1.Incr(&s, 1) }, func() { c2.Incr(&s, 5) })
		want("c1", c1.Value(&s), 1)
		want("c2", c2.Value(&s), 5)
		return fmt.Sprint(c1.Value(&s), c2.Value(&s))
	}},
	{"incr-merge", func() string {
		var s, u metrics.Scope
		c1.Incr(&u, 10)
		c2.Incr(&u, 20)
		par(func() { c1.Incr(&s, 1) }, func() { s.Merge(&u) })
		want("c1 after Incr(1) || Merge(10)", c1.Value(&s), 11)
		want("c2 after Merge(20)", c2.Value(&s), 20)
		want("source scope c1 unchanged", c1.Value(&u), 10)
		return fmt.Sprint(c1.Value(&s), c2.Value(&s))
	}},
	{"merge-merge", func() string {
		var s, u, v metrics.Scope
		c1.Incr(&u, 10)
		c1.Incr(&v, 100)
		par(func() { s.Merge(&u) }, func() { s.Merge(&v) })
		want("c1 after Merge(10) || Merge(100) into a fresh scope", c1.Value(&s), 110)
		return fmt.Sprint(c1.Value(&s))
	}},
	{"incr-value", func() string {
		var s metrics.Scope
		var seen int64
		par(func() { c1.Incr(&s, 3) }, func() { seen = c1.Value(&s) })
		if seen != 0 && seen != 3 {
			vsched.Fail("concurrent Value observed %d (want 0 or 3)", seen)
		}
		want("c1", c1.Value(&s), 3)
		return fmt.Sprint(seen)
	}},
}

var (
	flagLayer    = flag.String("layer", "C20", "property that owns this layer")
	flagRacePass = flag.Int("racepass", 0, "internal (race flavour): run every scenario body N times free-running")
)

// racePass runs the scenario bodies without the scheduler (the vsched API passes
// through to real goroutines) so that the Go race detector can observe package
// metrics' lock-free code; a plain (non-atomic) access there has no scheduling point
// under the cooperative scheduler.
func racePass(n int) {
	fails := map[string]int{}
	runs := 0
	for _, s := range scens {
		for i := 0; i < n; i++ {
			s.body()
			runs++
			for _, f := range vsched.PassFails() {
				fails[s.name+": "+f]++
			}
		}
	}
	b, _ := json.Marshal(map[string]interface{}{"runs": runs, "fails": fails})
	fmt.Printf("RACEPASS %s\n", b)
}

func main() {
	var mcs []*mc.Scenario
	for _, s := range scens {
		s := s
		var out string
		mcs = append(mcs, &mc.Scenario{Name: s.name, Body: func() { out = s.body() }, Outcome: func() string { return out },
			SigGroup: "S/" + s.name, Class: func(e string) string { return "wrong-total" }})
	}
	mc.ChildMain(mcs)
	if *flagRacePass > 0 {
		racePass(*flagRacePass)
		return
	}
	r := ev.Start(*flagLayer, "model_checking")
	var plans []mc.Plan
	for _, s := range scens {
		// the executions are tiny: preemption bound 3 (quick) / delay bound 8 as well (thorough) finish in seconds
		plans = append(plans, mc.Plan{Scenario: s.name, Delay: false, Bound: 3, Budget: 60 * time.Second})
		if r.Thorough() {
			plans = append(plans, mc.Plan{Scenario: s.name, Delay: true, Bound: 6, Budget: 5 * time.Minute})
		}
	}
	sum := mc.RunPlans(r, mcs, plans)
	cov := sum.Coverage("metrics.Scope used concurrently by 2-3 threads (Incr/Merge/Value on a fresh scope) with every atomic operation of package metrics a scheduling point; all schedules up to the stated preemption / delay bound modulo happens-before equivalence")
	n := "2000"
	if r.Thorough() {
		n = "20000"
	}
	if race := ev.RunRacePass(r, "c20s-race", []string{"-racepass", n}, []string{"2", "4", "16"}, "C20/S"); race != nil {
		cov["race_pass"] = race
	}
	out := map[string]interface{}{"coverage": cov, "violations": r.Violations(), "machinery": sum.Machinery, "violation_list": r.Pending()}
	b, _ := json.Marshal(out)
	fmt.Printf("LAYER %s\n", b)
	os.Exit(0)
}
