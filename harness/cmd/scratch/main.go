// scratch: ad-hoc reproduction programs (not a check).
package main

import (
	"context"
	"fmt"
	"sort"
	"strings"

	"github.com/grailbio/bigslice"
	"github.com/grailbio/bigslice/exec"
	"verifh/vsys"
)

var fSrc = bigslice.Func(func() bigslice.Slice {
	keys := make([]int, 30)
	vals := make([]int, 30)
	for i := range keys {
		keys[i] = i
		vals[i] = i * 10
	}
	return bigslice.Const(3, keys, vals)
})

// two different direct re-shuffles of a result
var fReshard = bigslice.Func(func(r bigslice.Slice, n int) bigslice.Slice { return bigslice.Reshard(r, n) })
var fRepart = bigslice.Func(func(r bigslice.Slice, n, mul int) bigslice.Slice {
	return bigslice.Repartition(r, func(nshard int, k, v int) int { return (k * mul) % nshard })
})

func rows(res *exec.Result) string {
	sc := res.Scanner()
	defer sc.Close()
	var k, v int
	var out []string
	for sc.Scan(context.Background(), &k, &v) {
		out = append(out, fmt.Sprintf("%d:%d", k, v))
	}
	sort.Strings(out)
	if err := sc.Err(); err != nil {
		return "scanerr:" + err.Error()
	}
	return fmt.Sprint(len(out), " ", strings.Join(out[:3], ","))
}

func main() {
	vsys.Quiet()
	vsys.FastRetries()
	exec.DoShuffleReaders = false
	for round := 0; round < 3; round++ {
		sys := vsys.New(2)
		sess := exec.Start(exec.Bigmachine(sys), exec.Parallelism(4))
		ctx := context.Background()
		r, err := sess.Run(ctx, fSrc)
		if err != nil {
			fmt.Println("src err", err)
			return
		}
		want := rows(r)
		for i, step := range []func() (*exec.Result, error){
			func() (*exec.Result, error) { return sess.Run(ctx, fReshard, r, 2) },
			func() (*exec.Result, error) { return sess.Run(ctx, fReshard, r, 3) },
			func() (*exec.Result, error) { return sess.Run(ctx, fRepart, r, 3, 1) },
			func() (*exec.Result, error) { return sess.Run(ctx, fRepart, r, 3, 2) },
			func() (*exec.Result, error) { return sess.Run(ctx, fReshard, r, 2) },
		} {
			res, err := step()
			if err != nil {
				fmt.Printf("round %d step %d: run error: %v\n", round, i, strings.Split(err.Error(), "\n")[0])
				continue
			}
			got := rows(res)
			status := "ok"
			if got != want {
				status = "WRONG ROWS got " + got + " want " + want
			}
			fmt.Printf("round %d step %d: %s\n", round, i, status)
		}
		sess.Shutdown()
	}
}
