// smoke: a distributed run on verifsystem (used to validate the build flavours).
package main

import (
	"context"
	"fmt"
	"sort"
	"strings"
	"time"

	"github.com/grailbio/bigslice"
	"github.com/grailbio/bigslice/exec"
	"verifh/vsys"
)

var fReduce = bigslice.Func(func(n int) bigslice.Slice {
	s := bigslice.Const(3, []int{1, 2, 3, 4, 5, 6, 7}, []int{1, 1, 1, 1, 1, 1, 1})
	s = bigslice.Map(s, func(k, v int) (int, int) { return k % n, v })
	return bigslice.Reduce(s, func(a, b int) int { return a + b })
})

func main() {
	vsys.Quiet()
	vsys.FastRetries()
	exec.DoShuffleReaders = false
	for _, local := range []bool{true, false} {
		var sess *exec.Session
		sys := vsys.New(2)
		if local {
			sess = exec.Start(exec.Local, exec.Parallelism(4))
		} else {
			sess = exec.Start(exec.Bigmachine(sys), exec.Parallelism(4))
		}
		t0 := time.Now()
		res, err := sess.Run(context.Background(), fReduce, 3)
		if err != nil {
			fmt.Println("run error:", err)
			continue
		}
		sc := res.Scanner()
		var k, v int
		var rows []string
		for sc.Scan(context.Background(), &k, &v) {
			rows = append(rows, fmt.Sprintf("%d:%d", k, v))
		}
		sort.Strings(rows)
		fmt.Println("local=", local, strings.Join(rows, ","), sc.Err(), time.Since(t0), "rpcs:", len(sys.History()))
		sc.Close()
		sess.Shutdown()
	}
}
