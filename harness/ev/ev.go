// Package ev implements the check protocol shared by all property harnesses:
// flags, evidence files, VIOLATION / KNOWN-FINDING lines, replay artefacts.
package ev

import (
	"bufio"
	"bytes"
	"crypto/sha256"
	"encoding/hex"
	"encoding/json"
	"flag"
	"fmt"
	"os"
	"os/exec"
	"path/filepath"
	"sort"
	"strconv"
	"strings"
	"sync"
	"time"
)

// Root is /verif unless VERIF_ROOT says otherwise.
func Root() string {
	if r := os.Getenv("VERIF_ROOT"); r != "" {
		return r
	}
	return "/verif"
}

// OutRoot is where evidence/ and replays/ are written: VERIF_OUT if set (used when
// checks are pointed at a scratch worktree, so that /verif's committed evidence is
// not overwritten), else Root().
func OutRoot() string {
	if r := os.Getenv("VERIF_OUT"); r != "" {
		return r
	}
	return Root()
}

// Violation is one counterexample.
type Violation struct {
	// Signature identifies the failing input/call site/history specifically
	// enough that a different violation of the same property has a different
	// signature. It is what known_findings.jsonl is matched against.
	Signature string      `json:"signature"`
	What      string      `json:"what"`
	Detail    interface{} `json:"detail,omitempty"`
}

type finding struct {
	Property  string `json:"property"`
	Signature string `json:"signature"`
	What      string `json:"what"`
	Status    string `json:"status"` // "known" (suppresses) or "fixed" (suppresses nothing)
}

// Run is the state of one check run.
type Run struct {
	ID     string
	Tier   string
	Seed   int64
	Level  string
	Replay string
	Budget time.Duration // soft internal budget; hitting it => exhaustive=false, exit 0

	start time.Time

	mu         sync.Mutex
	violations []Violation
	known      map[string]finding
	knownHit   map[string]bool
	seenSig    map[string]bool
	Assume     []string
	samples    []interface{}
	notes      []string
	inexhaust  []string
	machinery  []string
}

var (
	flagTier   = flag.String("tier", "", "quick|thorough (default from VERIF_TIER or quick)")
	flagReplay = flag.String("replay", "", "replay file")
	flagBudget = flag.Duration("budget", 0, "soft time budget (0 = tier default)")
)

// Start parses flags and prepares a run. level is the MANIFEST category.
func Start(id, level string) *Run {
	if !flag.Parsed() {
		flag.Parse()
	}
	r := &Run{ID: id, Level: level, start: time.Now(), known: map[string]finding{}, knownHit: map[string]bool{}, seenSig: map[string]bool{}}
	r.Tier = *flagTier
	if r.Tier == "" {
		r.Tier = os.Getenv("VERIF_TIER")
	}
	if r.Tier != "thorough" {
		r.Tier = "quick"
	}
	if s := os.Getenv("VERIF_SEED"); s != "" {
		r.Seed, _ = strconv.ParseInt(s, 10, 64)
	}
	r.Replay = *flagReplay
	r.Budget = *flagBudget
	if r.Replay != "" {
		replay(id, r.Replay)
	}
	r.loadKnown()
	r.Assume = append(r.Assume,
		"compat overlay (DESIGN.md §1.2): base/errors.CleanUp[Ctx], retry.MaxRetries, limitbuf options, bigmachine rpc client func()(io.Reader,error) case, exec/config.go stubbed",
		"accessors injected into bigslice packages by go build -overlay (tag verif); /repo itself is not modified")
	return r
}

// Thorough reports whether this is a thorough-tier run.
func (r *Run) Thorough() bool { return r.Tier == "thorough" }

// Elapsed since Start.
func (r *Run) Elapsed() time.Duration { return time.Since(r.start) }

// OverBudget reports whether the soft budget is used up (d = default for the tier if no -budget given).
func (r *Run) OverBudget(def time.Duration) bool {
	b := r.Budget
	if b == 0 {
		b = def
	}
	return time.Since(r.start) > b
}

// NotExhaustive records that some part of the space was not completed.
func (r *Run) NotExhaustive(why string) {
	r.mu.Lock()
	defer r.mu.Unlock()
	r.inexhaust = append(r.inexhaust, why)
}

// Machinery records a failure of the checking machinery itself (a child that produced
// no result, a failing schedule that did not reproduce on replay, ...). It is never a
// verdict: Finish exits 2 (unless real violations were found, which take precedence).
func (r *Run) Machinery(msg string) {
	r.mu.Lock()
	defer r.mu.Unlock()
	fmt.Fprintf(os.Stderr, "MACHINERY-ERROR: %s\n", msg)
	if len(r.machinery) < 50 {
		r.machinery = append(r.machinery, msg)
	}
}

// Note adds a free-text note to the evidence.
func (r *Run) Note(format string, a ...interface{}) {
	r.mu.Lock()
	defer r.mu.Unlock()
	if len(r.notes) < 200 {
		r.notes = append(r.notes, fmt.Sprintf(format, a...))
	}
}

// Sample keeps up to 8 written-out cases for the evidence file.
func (r *Run) Sample(s interface{}) {
	r.mu.Lock()
	defer r.mu.Unlock()
	if len(r.samples) < 8 {
		r.samples = append(r.samples, s)
	}
}

func (r *Run) loadKnown() {
	f, err := os.Open(filepath.Join(Root(), "known_findings.jsonl"))
	if err != nil {
		return
	}
	defer f.Close()
	sc := bufio.NewScanner(f)
	sc.Buffer(make([]byte, 1<<20), 1<<20)
	for sc.Scan() {
		line := strings.TrimSpace(sc.Text())
		if line == "" || strings.HasPrefix(line, "#") || strings.HasPrefix(line, "fixed:") {
			continue
		}
		var fd finding
		if json.Unmarshal([]byte(line), &fd) != nil {
			continue
		}
		if fd.Property == r.ID && fd.Status != "fixed" {
			r.known[fd.Signature] = fd
		}
	}
}

// Violate records a counterexample. Listed findings are reported as
// KNOWN-FINDING and do not count. Returns true if it counts as a violation.
func (r *Run) Violate(sig, what string, detail interface{}) bool {
	r.mu.Lock()
	defer r.mu.Unlock()
	if fd, ok := r.known[sig]; ok {
		if !r.knownHit[sig] {
			r.knownHit[sig] = true
			fmt.Printf("KNOWN-FINDING: property=%s %s [%s]\n", r.ID, fd.What, sig)
		}
		return false
	}
	if r.seenSig[sig] {
		return true
	}
	r.seenSig[sig] = true
	if len(r.violations) < 50 {
		r.violations = append(r.violations, Violation{Signature: sig, What: what, Detail: detail})
	}
	return true
}

// Pending returns the violations recorded so far (used when one harness computes
// a layer on behalf of another).
func (r *Run) Pending() []Violation {
	r.mu.Lock()
	defer r.mu.Unlock()
	return append([]Violation{}, r.violations...)
}

// Violations so far (not counting known findings).
func (r *Run) Violations() int {
	r.mu.Lock()
	defer r.mu.Unlock()
	return len(r.seenSig)
}

// NumSamples is the number of samples recorded so far.
func (r *Run) NumSamples() int {
	r.mu.Lock()
	defer r.mu.Unlock()
	return len(r.samples)
}

// Coverage is what Finish writes under "coverage"; extra keys welcome.
type Coverage map[string]interface{}

// Finish writes the evidence file, prints the verdict lines and exits.
func (r *Run) Finish(cov Coverage) {
	r.mu.Lock()
	defer r.mu.Unlock()
	if _, ok := cov["samples"]; !ok {
		cov["samples"] = r.samples
	}
	// "samples" must be a list (an empty one when the run selected no sample)
	if v, ok := cov["samples"].([]interface{}); ok && v == nil {
		cov["samples"] = []interface{}{}
	}
	if len(r.inexhaust) > 0 {
		cov["exhaustive"] = false
		cov["not_exhaustive_because"] = r.inexhaust
	} else if _, ok := cov["exhaustive"]; !ok {
		cov["exhaustive"] = true
	}
	if len(r.notes) > 0 {
		cov["notes"] = r.notes
	}
	if len(r.machinery) > 0 {
		cov["machinery_errors"] = r.machinery
		cov["exhaustive"] = false
	}
	var kh []string
	for s := range r.knownHit {
		kh = append(kh, s)
	}
	sort.Strings(kh)
	if len(kh) > 0 {
		cov["known_findings_reproduced"] = kh
	}
	evd := map[string]interface{}{
		"property_id": r.ID,
		"tier":        r.Tier,
		"seed":        r.Seed,
		"level":       r.Level,
		"coverage":    cov,
		"assumptions": r.Assume,
		"wall_s":      time.Since(r.start).Seconds(),
		"violations":  len(r.seenSig),
	}
	if r.Replay == "" {
		dir := filepath.Join(OutRoot(), "evidence")
		os.MkdirAll(dir, 0777)
		b, _ := json.MarshalIndent(evd, "", " ")
		tmp := filepath.Join(dir, "."+r.ID+".tmp")
		if err := os.WriteFile(tmp, append(b, '\n'), 0666); err == nil {
			os.Rename(tmp, filepath.Join(dir, r.ID+".json"))
		}
	}
	for _, v := range r.violations {
		b, _ := json.MarshalIndent(map[string]interface{}{"property": r.ID, "violation": v}, "", " ")
		h := sha256.Sum256([]byte(v.Signature))
		dir := filepath.Join(OutRoot(), "replays", r.ID)
		os.MkdirAll(dir, 0777)
		p := filepath.Join(dir, hex.EncodeToString(h[:6])+".json")
		os.WriteFile(p, append(b, '\n'), 0666)
		fmt.Printf("VIOLATION property=%s replay=%s\n", r.ID, p)
		fmt.Printf("  what: %s\n  signature: %s\n", v.What, v.Signature)
	}
	keys := []string{}
	for _, k := range []string{"evaluations", "distinct_nontrivial", "states", "transitions", "traces_validated_against_impl", "exhaustive"} {
		if v, ok := cov[k]; ok {
			keys = append(keys, fmt.Sprintf("%s=%v", k, v))
		}
	}
	fmt.Printf("%s %s: violations=%d known=%d %s wall=%.1fs\n", r.ID, r.Tier, len(r.seenSig), len(kh), strings.Join(keys, " "), time.Since(r.start).Seconds())
	if len(r.seenSig) > 0 {
		os.Exit(1)
	}
	if len(r.machinery) > 0 {
		os.Exit(2)
	}
	os.Exit(0)
}

// Fatal reports a failure of the machinery itself (never a verdict): exit 2.
func Fatal(format string, a ...interface{}) {
	fmt.Fprintf(os.Stderr, "MACHINERY-ERROR: "+format+"\n", a...)
	os.Exit(2)
}

// Counter is a concurrency-safe set of distinct strings with a total count.
type Counter struct {
	mu    sync.Mutex
	set   map[string]int
	total int64
}

func NewCounter() *Counter { return &Counter{set: map[string]int{}} }
func (c *Counter) Add(k string) {
	c.mu.Lock()
	c.set[k]++
	c.total++
	c.mu.Unlock()
}
func (c *Counter) Distinct() int { c.mu.Lock(); defer c.mu.Unlock(); return len(c.set) }
func (c *Counter) Total() int64  { c.mu.Lock(); defer c.mu.Unlock(); return c.total }
func (c *Counter) Keys() []string {
	c.mu.Lock()
	defer c.mu.Unlock()
	var ks []string
	for k := range c.set {
		ks = append(ks, k)
	}
	sort.Strings(ks)
	return ks
}

// Parallel runs f(i) for i in [0,n) on up to w goroutines.
func Parallel(n, w int, f func(i int)) {
	if w < 1 {
		w = 1
	}
	var wg sync.WaitGroup
	ch := make(chan int)
	for k := 0; k < w; k++ {
		wg.Add(1)
		go func() {
			defer wg.Done()
			for i := range ch {
				f(i)
			}
		}()
	}
	for i := 0; i < n; i++ {
		ch <- i
	}
	close(ch)
	wg.Wait()
}

// Hash is a short stable hash of a string.
func Hash(s string) string {
	h := sha256.Sum256([]byte(s))
	return hex.EncodeToString(h[:8])
}

// ReplayHandler, if set by a harness before Start, re-executes a recorded counterexample
// from its detail and reports what it observed; it returns false if it cannot.
var ReplayHandler func(detail json.RawMessage) bool

// replay implements `./run <ID> quick -replay <file>`: it prints the recorded
// counterexample, re-executes it where the harness (or the mc driver, for failing
// schedules) knows how, and exits 0. It never writes evidence.
func replay(id, path string) {
	b, err := os.ReadFile(path)
	if err != nil {
		Fatal("replay: %v", err)
	}
	var rec struct {
		Property  string `json:"property"`
		Violation struct {
			Signature string          `json:"signature"`
			What      string          `json:"what"`
			Detail    json.RawMessage `json:"detail"`
		} `json:"violation"`
	}
	if err := json.Unmarshal(b, &rec); err != nil {
		Fatal("replay: %s is not a replay file: %v", path, err)
	}
	if rec.Property != "" && rec.Property != id {
		Fatal("replay: %s belongs to property %s, not %s", path, rec.Property, id)
	}
	fmt.Printf("REPLAY property=%s\n  signature: %s\n  what: %s\n", id, rec.Violation.Signature, rec.Violation.What)
	var mcd struct {
		Plan    json.RawMessage `json:"plan"`
		Choices []int           `json:"choices"`
	}
	switch {
	case ReplayHandler != nil && ReplayHandler(rec.Violation.Detail):
	case json.Unmarshal(rec.Violation.Detail, &mcd) == nil && mcd.Plan != nil && mcd.Choices != nil:
		// a failing schedule found by the vsched explorer: re-execute it twice in a child
		rq, _ := json.Marshal(map[string]interface{}{"plan": mcd.Plan, "choices": mcd.Choices})
		cmd := exec.Command(os.Args[0], "-mc-replay", string(rq))
		cmd.Stdout, cmd.Stderr = os.Stdout, os.Stderr
		if err := cmd.Run(); err != nil {
			fmt.Printf("  re-execution failed to run: %v\n", err)
		}
	default:
		var pretty bytes.Buffer
		if json.Indent(&pretty, rec.Violation.Detail, "  ", " ") == nil {
			fmt.Printf("  detail (the complete failing input / history / fault; re-run the check to re-execute it):\n  %s\n", pretty.String())
		}
	}
	os.Exit(0)
}
