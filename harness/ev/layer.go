package ev

import (
	"bytes"
	"encoding/json"
	"fmt"
	"os"
	"os/exec"
	"path/filepath"
	"strings"
)

// MergeLayer runs a sibling harness binary (built by ./run because checks.tsv lists
// it for this property) that computes one layer of this property's check and prints
// a line `LAYER {json}` with keys coverage, violations, machinery, violation_list.
// The layer's violations are re-raised in r, its coverage is stored under cov[key],
// and its states / transitions / traces are added to cov's totals.
func MergeLayer(r *Run, cov Coverage, bin, key string, args ...string) {
	path := filepath.Join(os.Getenv("VERIF_BIN_DIR"), bin)
	if _, err := os.Stat(path); err != nil {
		r.NotExhaustive(fmt.Sprintf("layer %s not run: %s not built", key, bin))
		return
	}
	args = append(args, "-layer", r.ID, "-tier", r.Tier)
	cmd := exec.Command(path, args...)
	var out, errb bytes.Buffer
	cmd.Stdout, cmd.Stderr = &out, &errb
	err := cmd.Run()
	var layer struct {
		Coverage   map[string]interface{} `json:"coverage"`
		Violations int                    `json:"violations"`
		Machinery  int                    `json:"machinery"`
		List       []Violation            `json:"violation_list"`
	}
	found := false
	for _, l := range strings.Split(out.String(), "\n") {
		if strings.HasPrefix(l, "LAYER ") {
			if json.Unmarshal([]byte(l[6:]), &layer) == nil {
				found = true
			}
		}
		if strings.HasPrefix(l, "KNOWN-FINDING:") {
			fmt.Println(l)
		}
	}
	if !found {
		r.Machinery(fmt.Sprintf("layer %s (%s) produced no result: %v; stderr tail: %s", key, bin, err, tailN(errb.String(), 1500)))
		return
	}
	for _, v := range layer.List {
		r.Violate(v.Signature, v.What, v.Detail)
	}
	if layer.Machinery > 0 {
		r.Machinery(fmt.Sprintf("layer %s reported %d machinery errors: %s", key, layer.Machinery, tailN(errb.String(), 1500)))
	}
	cov[key] = layer.Coverage
	for _, k := range []string{"states", "transitions", "traces_validated_against_impl"} {
		add, _ := layer.Coverage[k].(float64)
		switch cur := cov[k].(type) {
		case int:
			cov[k] = cur + int(add)
		case int64:
			cov[k] = cur + int64(add)
		case float64:
			cov[k] = cur + add
		case nil:
			cov[k] = int(add)
		}
	}
	if ex, ok := layer.Coverage["exhaustive"].(bool); ok && !ex {
		r.NotExhaustive(fmt.Sprintf("layer %s: %v", key, layer.Coverage["not_exhaustive_because"]))
	}
}

func tailN(s string, n int) string {
	if len(s) > n {
		return s[len(s)-n:]
	}
	return s
}
