package ev

import (
	"bytes"
	"encoding/json"
	"fmt"
	"os"
	"os/exec"
	"strings"
)

// RunRacePass executes the race-flavour sibling binary `bin` (built by ./run because
// checks.tsv lists it) with args, once per GOMAXPROCS value, under the Go race
// detector. The child runs harness bodies WITHOUT the cooperative scheduler (whose
// hand-offs are happens-before edges that blind the detector) and prints
// `RACEPASS {"runs":n,"fails":{"what":count}}`. Every functional failure and every
// race report becomes a violation `<sigPrefix>/racepass/...` or `<sigPrefix>/data-race/<site>`.
// Auxiliary evidence: sampled schedules, not exhaustive.
func RunRacePass(r *Run, bin string, args []string, procs []string, sigPrefix string) map[string]interface{} {
	path := os.Getenv("VERIF_BIN_DIR") + "/" + bin
	if _, err := os.Stat(path); err != nil {
		r.NotExhaustive("race pass skipped: " + bin + " not built")
		return nil
	}
	total, reports := 0, 0
	for _, p := range procs {
		cmd := exec.Command(path, args...)
		cmd.Env = append(os.Environ(), "GOMAXPROCS="+p, "GORACE=halt_on_error=0 exitcode=0")
		var out, errb bytes.Buffer
		cmd.Stdout, cmd.Stderr = &out, &errb
		err := cmd.Run()
		var res struct {
			Runs  int            `json:"runs"`
			Fails map[string]int `json:"fails"`
		}
		found := false
		for _, l := range strings.Split(out.String(), "\n") {
			if strings.HasPrefix(l, "RACEPASS ") {
				json.Unmarshal([]byte(l[9:]), &res)
				found = true
			}
		}
		if !found {
			fmt.Fprintf(os.Stderr, "MACHINERY-ERROR: race pass %s (GOMAXPROCS=%s) produced no result: %v\n%s\n", bin, p, err, tailN(errb.String(), 3000))
			r.NotExhaustive("race pass child failed (GOMAXPROCS=" + p + ")")
			continue
		}
		total += res.Runs
		for f, c := range res.Fails {
			r.Violate(sigPrefix+"/racepass/"+f, fmt.Sprintf("free-running run (GOMAXPROCS=%s, %d times): %s", p, c, f), nil)
		}
		for _, blk := range strings.Split(errb.String(), "WARNING: DATA RACE")[1:] {
			reports++
			h := blk
			if len(h) > 6000 {
				h = h[:6000]
			}
			r.Violate(sigPrefix+"/data-race/"+RaceSite(blk), "data race reported by the Go race detector:\n"+tailHeadN(blk, 2500),
				map[string]interface{}{"report": h, "gomaxprocs": p})
		}
	}
	return map[string]interface{}{"free_running_runs": total, "race_reports": reports, "gomaxprocs": procs,
		"note": "dynamic happens-before race detection over sampled schedules (auxiliary; not exhaustive)"}
}

func tailHeadN(s string, n int) string {
	if len(s) > n {
		return s[:n]
	}
	return s
}

// RaceSite extracts the first bigslice frame of a race report as its identity.
func RaceSite(blk string) string {
	for _, l := range strings.Split(blk, "\n") {
		l = strings.TrimSpace(l)
		if strings.Contains(l, "grailbio/bigslice/") && !strings.Contains(l, "verifrt") {
			if i := strings.LastIndex(l, "/"); i >= 0 {
				l = l[i+1:]
			}
			if j := strings.Index(l, " "); j > 0 {
				l = l[:j]
			}
			return l
		}
	}
	return "unknown-site"
}
