// Package mc drives vsched explorations from a property harness: it fans a list
// of (scenario, bounding discipline, bound) plans out over child processes (one
// exploration per process: the scheduler is process-global), confirms every
// failing schedule by replaying it twice, and aggregates the evidence.
package mc

import (
	"bytes"
	"encoding/json"
	"flag"
	"fmt"
	"os"
	"os/exec"
	"regexp"
	"runtime"
	"sort"
	"strings"
	"sync"
	"time"

	"github.com/grailbio/bigslice/verifrt/vsched"
	"verifh/ev"
)

// Scenario is a closed multi-goroutine program over the instrumented code.
type Scenario struct {
	Name string
	// Body runs as the managed main thread. It must build fresh state for every execution.
	Body func()
	// Check is the end-of-execution oracle for complete executions. Monitors inside
	// the body report with vsched.Fail.
	Check func() error
	// Outcome labels the complete execution (distribution is reported; one outcome
	// over many executions means nothing collided).
	Outcome func() string
	// Grace is the real-time grace period for foreign events (0 = none).
	Grace time.Duration
	// Class maps an error message to a violation signature class (optional).
	Class func(err string) string
	// SigGroup replaces the scenario name in violation signatures (optional), so
	// that one defect seen from many scenario variants is one signature.
	SigGroup string
}

// Plan is one exploration.
type Plan struct {
	Scenario string        `json:"scenario"`
	Delay    bool          `json:"delay"`
	Bound    int           `json:"bound"`
	Budget   time.Duration `json:"budget"`
	MaxExec  int           `json:"max_exec"`
}

func (p Plan) String() string {
	d := "preempt"
	if p.Delay {
		d = "delay"
	}
	return fmt.Sprintf("%s/%s<=%d", p.Scenario, d, p.Bound)
}

// PlanResult is what a child reports.
type PlanResult struct {
	Plan           Plan           `json:"plan"`
	Executions     int            `json:"executions"`
	Complete       int            `json:"complete"`
	Pruned         int            `json:"pruned"`
	Steps          int            `json:"steps"`
	States         int            `json:"states"`
	MaxDepth       int            `json:"max_depth"`
	BoundCompleted int            `json:"bound_completed"`
	Exhausted      bool           `json:"exhausted"`
	StoppedBy      string         `json:"stopped_by,omitempty"`
	Outcomes       map[string]int `json:"outcomes"`
	Unmanaged      int            `json:"unmanaged"`
	Failures       []FailureRec   `json:"failures,omitempty"`
	WallS          float64        `json:"wall_s"`
	Sample         []string       `json:"sample_trace,omitempty"`
	Error          string         `json:"error,omitempty"` // machinery error
}

// FailureRec is a failing schedule.
type FailureRec struct {
	Choices   []int    `json:"choices"`
	Err       string   `json:"err"`
	Bound     int      `json:"bound"`
	Trace     []string `json:"trace"`
	Confirmed bool     `json:"confirmed"`
}

var (
	flagChild  = flag.String("mc-child", "", "internal: run one plan (JSON) and print the result")
	flagReplay = flag.String("mc-replay", "", "internal: replay choices (JSON {plan,choices}) twice")
	flagOnly   = flag.String("only", "", "run only scenarios whose name contains this substring")
	flagJobs   = flag.Int("jobs", 0, "parallel child processes (default: number of CPUs)")
)

func traceStrings(tr []vsched.Point, max int) []string {
	var out []string
	for i, p := range tr {
		if i >= max {
			out = append(out, fmt.Sprintf("... (%d more)", len(tr)-max))
			break
		}
		out = append(out, fmt.Sprintf("T%d %s %s alt %d/%d", p.Thread, p.Kind, p.Site, p.Chosen, p.NAlt))
	}
	return out
}

func explorer(sc *Scenario, p Plan) *vsched.Explorer {
	e := &vsched.Explorer{
		Cfg:  vsched.Config{Delay: p.Delay, Bound: p.Bound, Budget: p.Budget, MaxExec: p.MaxExec, ForeignGrace: sc.Grace},
		Body: sc.Body,
	}
	if sc.Check != nil {
		e.Check = func(*vsched.Sched) error { return sc.Check() }
	}
	e.Outcome = sc.Outcome
	return e
}

// ChildMain must be called early in main (after flag.Parse) by sched-flavour
// binaries; it does not return when the process is an mc child.
func ChildMain(scenarios []*Scenario) {
	if !flag.Parsed() {
		flag.Parse()
	}
	find := func(name string) *Scenario {
		for _, s := range scenarios {
			if s.Name == name {
				return s
			}
		}
		fmt.Fprintf(os.Stderr, "mc: unknown scenario %q\n", name)
		os.Exit(2)
		return nil
	}
	if *flagChild != "" {
		var p Plan
		if err := json.Unmarshal([]byte(*flagChild), &p); err != nil {
			fmt.Fprintln(os.Stderr, "mc: bad plan:", err)
			os.Exit(2)
		}
		sc := find(p.Scenario)
		t0 := time.Now()
		res := explorer(sc, p).Run()
		out := PlanResult{Plan: p, Executions: res.Executions, Complete: res.Complete, Pruned: res.Pruned, Steps: res.Steps,
			States: res.States, MaxDepth: res.MaxDepth, BoundCompleted: res.BoundCompleted, Exhausted: res.Exhausted,
			StoppedBy: res.StoppedBy, Outcomes: res.Outcomes, Unmanaged: res.Unmanaged, WallS: time.Since(t0).Seconds(),
			Sample: traceStrings(res.SampleTrace, 400)}
		for _, f := range res.Failures {
			out.Failures = append(out.Failures, FailureRec{Choices: f.Choices, Err: f.Err, Bound: f.Bound, Trace: traceStrings(f.Trace, 400)})
		}
		b, _ := json.Marshal(out)
		fmt.Printf("MCRESULT %s\n", b)
		os.Exit(0)
	}
	if *flagReplay != "" {
		var rq struct {
			Plan    Plan  `json:"plan"`
			Choices []int `json:"choices"`
		}
		if err := json.Unmarshal([]byte(*flagReplay), &rq); err != nil {
			fmt.Fprintln(os.Stderr, "mc: bad replay request:", err)
			os.Exit(2)
		}
		sc := find(rq.Plan.Scenario)
		var errs []string
		for i := 0; i < 2; i++ {
			s, err := explorer(sc, rq.Plan).Replay(rq.Choices)
			msg := ""
			if err != nil {
				msg = err.Error()
			}
			errs = append(errs, msg)
			if i == 0 {
				for _, l := range traceStrings(s.Trace(), 2000) {
					fmt.Println("  ", l)
				}
			}
		}
		b, _ := json.Marshal(errs)
		fmt.Printf("MCREPLAY %s\n", b)
		os.Exit(0)
	}
}

// errWatchdog is returned by runChildLimit when the child had to be killed.
var errWatchdog = fmt.Errorf("child killed by the watchdog")

func runChild(args ...string) ([]byte, error) { return runChildLimit(0, args...) }

// runChildLimit runs a child process; with limit > 0 the child is killed when it is
// still running after that long (it stops by itself when its exploration budget is
// used up, so this only ends a child whose scheduler is stuck).
func runChildLimit(limit time.Duration, args ...string) ([]byte, error) {
	cmd := exec.Command(os.Args[0], args...)
	cmd.Env = append(os.Environ(), "GOMAXPROCS=2")
	var out, errb bytes.Buffer
	cmd.Stdout = &out
	cmd.Stderr = &errb
	if err := cmd.Start(); err != nil {
		return nil, err
	}
	killed := make(chan bool, 1)
	if limit > 0 {
		tm := time.AfterFunc(limit, func() { killed <- true; cmd.Process.Kill() })
		defer tm.Stop()
	}
	err := cmd.Wait()
	select {
	case <-killed:
		return out.Bytes(), errWatchdog
	default:
	}
	if err != nil {
		return out.Bytes(), fmt.Errorf("%v: %s", err, tail(errb.String(), 2000))
	}
	return out.Bytes(), nil
}

func tail(s string, n int) string {
	if len(s) > n {
		return s[len(s)-n:]
	}
	return s
}

func extract(out []byte, tag string) []byte {
	for _, line := range bytes.Split(out, []byte("\n")) {
		if bytes.HasPrefix(line, []byte(tag+" ")) {
			return line[len(tag)+1:]
		}
	}
	return nil
}

// Summary aggregates plan results.
type Summary struct {
	Results                 []PlanResult
	States, Transitions     int
	Traces, Executions      int
	Violations, Machinery   int
	Outcomes                map[string]int
	Incomplete              []string
}

var numRe = regexp.MustCompile(`[0-9]+`)

// normalize removes numbers (invocation indices, addresses) from a message.
func normalize(s string) string { return numRe.ReplaceAllString(s, "N") }

func firstLine(s string) string {
	if i := strings.IndexByte(s, '\n'); i >= 0 {
		return s[:i]
	}
	return s
}

// RunPlans executes the plans in child processes and feeds violations into r.
func RunPlans(r *ev.Run, scenarios []*Scenario, plans []Plan) *Summary {
	byName := map[string]*Scenario{}
	for _, s := range scenarios {
		byName[s.Name] = s
	}
	if *flagOnly != "" {
		var f []Plan
		for _, p := range plans {
			if strings.Contains(p.Scenario, *flagOnly) {
				f = append(f, p)
			}
		}
		plans = f
	}
	jobs := *flagJobs
	if jobs == 0 {
		jobs = runtime.NumCPU()
	}
	sum := &Summary{Outcomes: map[string]int{}}
	results := make([]PlanResult, len(plans))
	var mu sync.Mutex
	ev.Parallel(len(plans), jobs, func(i int) {
		p := plans[i]
		pj, _ := json.Marshal(p)
		var pr PlanResult
		for attempt := 0; attempt < 2; attempt++ {
			// a child stops by itself at its budget; the watchdog only ends a stuck one
			limit := 3*p.Budget + 10*time.Minute
			if p.Budget == 0 {
				limit = 3 * time.Hour
			}
			out, err := runChildLimit(limit, "-mc-child", string(pj))
			pr = PlanResult{}
			if b := extract(out, "MCRESULT"); b != nil {
				json.Unmarshal(b, &pr)
			} else if err == errWatchdog {
				// A stuck child is a fault of the exploration machinery (a deadlock of the
				// code under test is a verdict of the scheduler, not a hang): nothing was
				// decided for this plan.
				pr.Plan = p
				pr.StoppedBy = fmt.Sprintf("the watchdog (no result after %s; nothing explored counts)", limit)
				break
			} else {
				pr.Plan = p
				pr.Error = fmt.Sprintf("child produced no result: %v; stdout tail: %s", err, tail(string(out), 1500))
			}
			// A replay divergence can be caused by a real-time event (a 10 s timer of the
			// code under test firing in an execution that was starved of CPU): run the plan
			// once more before reporting a machinery error.
			nondet := false
			for _, f := range pr.Failures {
				if strings.HasPrefix(f.Err, "NONDETERMINISM") {
					nondet = true
				}
			}
			if !nondet {
				break
			}
		}
		// confirm failures by replay (twice, identical verdict)
		for k := range pr.Failures {
			f := &pr.Failures[k]
			rq, _ := json.Marshal(map[string]interface{}{"plan": p, "choices": f.Choices})
			out, _ := runChild("-mc-replay", string(rq))
			var errs []string
			if b := extract(out, "MCREPLAY"); b != nil {
				json.Unmarshal(b, &errs)
			}
			// confirmed = both replays fail again, with the same class of failure as the
			// original (messages may contain process-global counters such as invocation indices)
			cls := func(e string) string {
				if sc := byName[p.Scenario]; sc != nil && sc.Class != nil {
					return sc.Class(e)
				}
				return normalize(firstLine(e))
			}
			f.Confirmed = len(errs) == 2 && errs[0] != "" && errs[1] != "" &&
				!strings.HasPrefix(errs[0], "NONDETERMINISM") && !strings.HasPrefix(errs[1], "NONDETERMINISM") &&
				cls(errs[0]) == cls(f.Err) && cls(errs[1]) == cls(f.Err)
		}
		mu.Lock()
		results[i] = pr
		mu.Unlock()
	})
	for _, pr := range results {
		sum.Results = append(sum.Results, pr)
		sum.States += pr.States
		sum.Transitions += pr.Steps
		sum.Traces += pr.Complete
		sum.Executions += pr.Executions
		for k, v := range pr.Outcomes {
			sum.Outcomes[pr.Plan.Scenario+": "+k] += v
		}
		if pr.Error != "" {
			sum.Machinery++
			r.Machinery(fmt.Sprintf("plan %s: %s", pr.Plan, pr.Error))
			continue
		}
		if pr.Unmanaged > 0 {
			r.Note("plan %s: %d operations by unmanaged goroutines on instrumented objects", pr.Plan, pr.Unmanaged)
		}
		if !pr.Exhausted && len(pr.Failures) == 0 {
			sum.Incomplete = append(sum.Incomplete, fmt.Sprintf("%s stopped by %s after bound %d", pr.Plan, pr.StoppedBy, pr.BoundCompleted))
		}
		sc := byName[pr.Plan.Scenario]
		for _, f := range pr.Failures {
			if strings.HasPrefix(f.Err, "NONDETERMINISM") || !f.Confirmed {
				sum.Machinery++
				r.Machinery(fmt.Sprintf("plan %s: unconfirmed or nondeterministic failure: %s", pr.Plan, firstLine(f.Err)))
				continue
			}
			class := normalize(firstLine(f.Err))
			if sc != nil && sc.Class != nil {
				class = sc.Class(f.Err)
			}
			grp := pr.Plan.Scenario
			if sc != nil && sc.SigGroup != "" {
				grp = sc.SigGroup
			}
			sig := fmt.Sprintf("%s/%s/%s", r.ID, grp, class)
			if r.Violate(sig, fmt.Sprintf("scenario %s (%s, %d deviations): %s", pr.Plan.Scenario, pr.Plan, f.Bound, f.Err),
				map[string]interface{}{"plan": pr.Plan, "choices": f.Choices, "trace": f.Trace, "err": f.Err}) {
				sum.Violations++
			}
		}
	}
	sort.Strings(sum.Incomplete)
	for _, s := range sum.Incomplete {
		r.NotExhaustive(s)
	}
	return sum
}

// Coverage renders the summary as model_checking evidence.
func (s *Summary) Coverage(rule string) ev.Coverage {
	type row struct {
		Plan           string         `json:"plan"`
		Executions     int            `json:"executions"`
		Complete       int            `json:"complete"`
		Pruned         int            `json:"pruned_at_visited_state"`
		States         int            `json:"states"`
		Steps          int            `json:"transitions"`
		MaxDepth       int            `json:"max_depth"`
		BoundCompleted int            `json:"bound_completed"`
		Exhausted      bool           `json:"exhausted"`
		Outcomes       map[string]int `json:"outcomes"`
		WallS          float64        `json:"wall_s"`
	}
	var rows []row
	var samples []interface{}
	for _, pr := range s.Results {
		rows = append(rows, row{pr.Plan.String(), pr.Executions, pr.Complete, pr.Pruned, pr.States, pr.Steps, pr.MaxDepth, pr.BoundCompleted, pr.Exhausted, pr.Outcomes, pr.WallS})
		if len(samples) < 2 && len(pr.Sample) > 0 {
			smp := pr.Sample
			if len(smp) > 60 {
				smp = smp[:60]
			}
			samples = append(samples, map[string]interface{}{"plan": pr.Plan.String(), "schedule": smp})
		}
	}
	states := s.States
	if states == 0 {
		states = 1
	}
	tr := s.Transitions
	if tr == 0 {
		tr = 1
	}
	return ev.Coverage{
		"states":                        states,
		"transitions":                   tr,
		"traces_validated_against_impl": s.Traces,
		"executions":                    s.Executions,
		"distinct_outcomes":             len(s.Outcomes),
		"outcomes":                      s.Outcomes,
		"plans":                         rows,
		"samples":                       samples,
		"rule":                          rule,
	}
}
