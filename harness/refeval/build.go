package refeval

import (
	"context"
	"flag"
	"fmt"
	"io"
	"io/ioutil"
	"path/filepath"
	"reflect"
	"strings"
	"sync"
	"sync/atomic"

	"github.com/grailbio/bigslice"
	"github.com/grailbio/bigslice/exec"
	"github.com/grailbio/bigslice/sliceio"
	"github.com/grailbio/bigslice/sortio"
)

// Func is the one registered bigslice.Func; it builds the program it is given.
// Import this package from every binary that may act as a worker.
var Func = bigslice.Func(func(p Program) bigslice.Slice { return p.Build() })

var (
	typInt   = reflect.TypeOf(0)
	typStr   = reflect.TypeOf("")
	typPt    = reflect.TypeOf(Pt{})
	typBool  = reflect.TypeOf(false)
	typErr   = reflect.TypeOf((*error)(nil)).Elem()
	typState = reflect.TypeOf((*int)(nil))
)

func goType(c Col) reflect.Type {
	switch c {
	case Int:
		return typInt
	case Str:
		return typStr
	case Ints:
		return reflect.SliceOf(typInt)
	case PtCol:
		return typPt
	case PtsCol:
		return reflect.SliceOf(typPt)
	}
	return reflect.SliceOf(typStr)
}

func goTypes(cs []Col) []reflect.Type {
	out := make([]reflect.Type, len(cs))
	for i, c := range cs {
		out[i] = goType(c)
	}
	return out
}

func vecTypes(cs []Col) []reflect.Type {
	out := goTypes(cs)
	for i := range out {
		out[i] = reflect.SliceOf(out[i])
	}
	return out
}

func toRow(args []reflect.Value) Row {
	r := make(Row, len(args))
	for i, a := range args {
		r[i] = a.Interface()
	}
	return r
}

func toValues(r Row) []reflect.Value {
	out := make([]reflect.Value, len(r))
	for i, v := range r {
		out[i] = reflect.ValueOf(v)
	}
	return out
}

// mkFunc makes a typed function value func(in...) (out...) around f.
func mkFunc(in, out []reflect.Type, f func([]reflect.Value) []reflect.Value) interface{} {
	return reflect.MakeFunc(reflect.FuncOf(in, out, false), f).Interface()
}

// snapshot returns the value of x; grouped ([]T) columns may share memory with
// bigslice's frames and are copied.
func snapshot(x reflect.Value) interface{} {
	if x.Kind() == reflect.Slice {
		c := reflect.MakeSlice(x.Type(), x.Len(), x.Len())
		reflect.Copy(c, x)
		x = c
	}
	return x.Interface()
}

// rowsOfVectors converts column vectors (each a slice of length >= n) to n rows.
func rowsOfVectors(vecs []reflect.Value, n int) []Row {
	rows := make([]Row, n)
	for i := range rows {
		r := make(Row, len(vecs))
		for j, v := range vecs {
			r[j] = snapshot(v.Index(i))
		}
		rows[i] = r
	}
	return rows
}

// Build constructs the real slice. It panics (as bigslice's constructors do)
// if the program is ill-typed.
func (p Program) Build() bigslice.Slice {
	t, ok := p.RootType()
	if !ok {
		panic("refeval.Build: invalid program " + p.String())
	}
	var s bigslice.Slice
	// Operators inside a fixed shape have positions -2, -3, ... (see ext.go);
	// the calls below are in the order of InternalOps.
	internal := 0
	op := func(s bigslice.Slice, t Type, o Op) (bigslice.Slice, Type) {
		internal++
		return p.buildOp(s, t, o, -1, -1-internal)
	}
	src := buildSource(p.Src, p.pragmasAt(-1)...)
	switch p.Shape {
	case ShapeChain:
		s = src
	case ShapeShared, ShapeSharedWriter:
		base, bt := op(src, SourceType(p.Src), Op{Kind: OpMap, Var: MapAdd1})
		if p.Shape == ShapeSharedWriter {
			base, bt = op(base, bt, Op{Kind: OpWriterFunc})
		}
		a, _ := op(base, bt, Op{Kind: OpReshard, N: p.N1})
		b, _ := op(base, bt, Op{Kind: OpReshard, N: p.N2})
		s = bigslice.Cogroup(a, b)
	case ShapeResult:
		panic("refeval.Build: a ShapeResult program is built with BuildOn(result of Prev)")
	case ShapeFanout:
		x, xt := op(src, SourceType(p.Src), Op{Kind: OpMap, Var: MapAdd1})
		a, _ := op(x, xt, fanoutOp(p.N1))
		b, _ := op(x, xt, fanoutOp(p.N2))
		s = bigslice.Cogroup(a, b)
	case ShapeNested:
		l, lt := op(src, SourceType(p.Src), Op{Kind: OpMap, Var: MapKeyMod3})
		l, _ = op(l, lt, Op{Kind: OpReduce})
		r, rt := op(buildSource(p.Src2), SourceType(p.Src2), Op{Kind: OpReshard, N: p.N1})
		r, _ = op(r, rt, Op{Kind: OpFold})
		c := bigslice.Cogroup(l, r)
		ct := Type{Cols: cols(Int, Ints, Ints), Prefix: 1, PrefixKnown: true}
		m, mt := op(c, ct, Op{Kind: OpMap, Var: MapGroupSum})
		s, _ = op(m, mt, Op{Kind: OpReduce})
	case ShapeCogroup3:
		a := src
		f, _ := op(a, SourceType(p.Src), Op{Kind: OpFilter, Var: FilterAlt})
		s = bigslice.Cogroup(a, buildSource(p.Src2), f)
	}
	for i, o := range p.Ops {
		s, t = p.buildOp(s, t, o, i, i)
	}
	return s
}

func buildSource(src Source, prags ...bigslice.Pragma) bigslice.Slice {
	rows := SourceRows(src)
	switch src.Kind {
	case SrcConst:
		columns := make([]interface{}, len(src.Schema))
		for j, c := range src.Schema {
			col := reflect.MakeSlice(reflect.SliceOf(goType(c)), len(rows), len(rows))
			for i, r := range rows {
				col.Index(i).Set(reflect.ValueOf(r[j]))
			}
			columns[j] = col.Interface()
		}
		return bigslice.Const(src.Shards, columns...)
	case SrcScanReader:
		text := SourceText(src)
		return bigslice.ScanReader(src.Shards, func() (io.ReadCloser, error) {
			return ioutil.NopCloser(strings.NewReader(text)), nil
		})
	case SrcReaderFunc:
		// func(shard int, state *int, cols ...[]T) (int, error); *state is the
		// number of calls<<16 | rows delivered so far.
		in := append([]reflect.Type{typInt, typState}, vecTypes(src.Schema)...)
		read := mkFunc(in, []reflect.Type{typInt, typErr}, func(args []reflect.Value) []reflect.Value {
			shard := int(args[0].Int())
			state := args[1].Interface().(*int)
			calls, done := *state>>16, *state&0xffff
			var mine []Row
			for i, r := range rows {
				if i%src.Shards == shard {
					mine = append(mine, r)
				}
			}
			ret := func(n int, err error) []reflect.Value {
				*state = (calls+1)<<16 | (done + n)
				e := reflect.Zero(typErr)
				if err != nil {
					e = reflect.ValueOf(&err).Elem()
				}
				return []reflect.Value{reflect.ValueOf(n), e}
			}
			room := args[2].Len()
			if src.Style == 2 && calls == 0 {
				return ret(0, nil)
			}
			if src.Style == 1 && room > 1 {
				room = 1
			}
			n := 0
			for n < room && done+n < len(mine) {
				for j := range src.Schema {
					args[2+j].Index(n).Set(reflect.ValueOf(mine[done+n][j]))
				}
				n++
			}
			if done+n == len(mine) && (src.Style != 1 || n == 0) {
				return ret(n, sliceio.EOF)
			}
			return ret(n, nil)
		})
		return bigslice.ReaderFunc(src.Shards, read, prags...)
	}
	panic("refeval: source kind")
}

// buildOp applies one operator. idx is the index in p.Ops (-1 inside fixed
// shapes), which identifies the recording slot of Scan/WriterFunc; pos is the
// position of ext.go (pragma placement, row counting).
func (p Program) buildOp(s bigslice.Slice, t Type, o Op, idx, pos int) (bigslice.Slice, Type) {
	var src2 *Source
	if o.Kind == OpCogroup && o.Var == CgSecond {
		src2 = &p.Src2
	}
	out, ok := Apply(t, o, src2)
	if !ok {
		panic(fmt.Sprintf("refeval.Build: operator %v not applicable to %v in %v", o, t.Cols, p))
	}
	in := goTypes(t.Cols)
	switch o.Kind {
	case OpMap:
		return bigslice.Map(s, p.userFunc(pos, in, goTypes(out.Cols), func(a []reflect.Value) []reflect.Value {
			return toValues(mapFn(o.Var, toRow(a)))
		}), p.pragmasAt(pos)...), out
	case OpFilter:
		return bigslice.Filter(s, p.userFunc(pos, in, []reflect.Type{typBool}, func(a []reflect.Value) []reflect.Value {
			return []reflect.Value{reflect.ValueOf(filterFn(o.Var, toRow(a)))}
		}), p.pragmasAt(pos)...), out
	case OpFlatmap:
		vt := vecTypes(out.Cols)
		return bigslice.Flatmap(s, p.userFunc(pos, in, vt, func(a []reflect.Value) []reflect.Value {
			rows := flatFn(o.Var, toRow(a))
			res := make([]reflect.Value, len(vt))
			for j := range vt {
				res[j] = reflect.MakeSlice(vt[j], len(rows), len(rows))
				for i, r := range rows {
					res[j].Index(i).Set(reflect.ValueOf(r[j]))
				}
			}
			return res
		}), p.pragmasAt(pos)...), out
	case OpFold:
		fin := append([]reflect.Type{typInt}, in[1:]...)
		return bigslice.Fold(s, mkFunc(fin, []reflect.Type{typInt}, func(a []reflect.Value) []reflect.Value {
			return []reflect.Value{reflect.ValueOf(foldFn(int(a[0].Int()), toRow(a[1:])))}
		})), out
	case OpHead:
		return bigslice.Head(s, o.N), out
	case OpCache:
		if p.CacheDir == "" {
			panic("refeval.Build: OpCache needs Program.CacheDir")
		}
		return bigslice.Cache(context.Background(), s, filepath.Join(p.CacheDir, fmt.Sprintf("cache-op%d", idx))), out
	case OpReduce, OpPrefixReduce:
		if o.Kind == OpPrefixReduce {
			s = bigslice.Prefixed(s, 2)
		}
		vt := in[len(in)-1]
		return bigslice.Reduce(s, mkFunc([]reflect.Type{vt, vt}, []reflect.Type{vt}, func(a []reflect.Value) []reflect.Value {
			return []reflect.Value{reflect.ValueOf(reduceFn(a[0].Interface(), a[1].Interface()))}
		})), out
	case OpCogroup:
		switch o.Var {
		case CgSingle:
			return bigslice.Cogroup(s), out
		case CgSelf:
			return bigslice.Cogroup(s, s), out
		default:
			return bigslice.Cogroup(s, buildSource(p.Src2)), out
		}
	case OpReshuffle:
		return bigslice.Reshuffle(s), out
	case OpReshard:
		return bigslice.Reshard(s, o.N), out
	case OpRepartition:
		fin := append([]reflect.Type{typInt}, in...)
		return bigslice.Repartition(s, mkFunc(fin, []reflect.Type{typInt}, func(a []reflect.Value) []reflect.Value {
			return []reflect.Value{reflect.ValueOf(repartFn(o.Var, int(a[0].Int()), toRow(a[1:])))}
		})), out
	case OpScan:
		tag, ptrs := p.Tag, in
		return bigslice.Scan(s, func(shard int, sc *sliceio.Scanner) error {
			rec := lookup(tag)
			args := make([]interface{}, len(ptrs))
			vals := make([]reflect.Value, len(ptrs))
			for i, ty := range ptrs {
				vals[i] = reflect.New(ty)
				args[i] = vals[i].Interface()
			}
			ctx := context.Background()
			var rows []Row
			for sc.Scan(ctx, args...) {
				r := make(Row, len(vals))
				for i, v := range vals {
					r[i] = snapshot(v.Elem())
				}
				rows = append(rows, r)
			}
			ev := Event{Op: idx, Shard: shard, Rows: rows}
			if err := sc.Err(); err != nil {
				ev.Err = err.Error()
			} else {
				ev.EOS = true
			}
			rec.add(ev)
			return sc.Err()
		}), out
	case OpWriterFunc:
		tag := p.Tag
		win := append([]reflect.Type{typInt, typState, typErr}, vecTypes(t.Cols)...)
		return bigslice.WriterFunc(s, mkFunc(win, []reflect.Type{typErr}, func(a []reflect.Value) []reflect.Value {
			rec := lookup(tag)
			ev := Event{Op: idx, Shard: int(a[0].Int())}
			if e := a[2].Interface(); e != nil {
				if e.(error) == sliceio.EOF {
					ev.EOS = true
				} else {
					ev.Err = e.(error).Error()
				}
			}
			n := 0
			if len(a) > 3 {
				n = a[3].Len()
			}
			ev.Rows = rowsOfVectors(a[3:], n)
			rec.add(ev)
			return []reflect.Value{reflect.Zero(typErr)}
		})), out
	}
	panic("refeval: operator kind")
}

// ---- side-effect recording -------------------------------------------------

// Event is one callback observation: a WriterFunc call (its rows and whether
// the read error was EOF) or a completed Scan callback (all rows it scanned).
type Event struct {
	Op    int // index in Program.Ops
	Shard int
	Rows  []Row
	EOS   bool   // end of stream was delivered with/after these rows
	Err   string // a non-EOF error was delivered
}

// Recording is the table the callbacks of one program run write to.
type Recording struct {
	mu     sync.Mutex
	events []Event
}

func (r *Recording) add(e Event) {
	if r == nil {
		return
	}
	r.mu.Lock()
	r.events = append(r.events, e)
	r.mu.Unlock()
}

// Events returns a copy of the events recorded so far, in callback order.
func (r *Recording) Events() []Event {
	r.mu.Lock()
	defer r.mu.Unlock()
	return append([]Event(nil), r.events...)
}

var (
	recMu   sync.Mutex
	recs    = map[uint64]*Recording{}
	nextTag uint64
)

// NewRecording allocates a process-global recording slot and its tag; set
// Program.Tag to the tag before running. Release it with DropRecording.
// Callbacks run in the driver process with the local executor and with the
// in-process vsys cluster; with real worker processes nothing is recorded in
// the driver.
func NewRecording() (uint64, *Recording) {
	tag := atomic.AddUint64(&nextTag, 1)
	r := &Recording{}
	recMu.Lock()
	recs[tag] = r
	recMu.Unlock()
	return tag, r
}

// DropRecording releases the slot of tag.
func DropRecording(tag uint64) {
	recMu.Lock()
	delete(recs, tag)
	recMu.Unlock()
}

// ResetRecordings drops every slot.
func ResetRecordings() {
	recMu.Lock()
	recs = map[uint64]*Recording{}
	recMu.Unlock()
}

func lookup(tag uint64) *Recording {
	recMu.Lock()
	defer recMu.Unlock()
	return recs[tag]
}

// ---- running ---------------------------------------------------------------

// Outcome is what one run of a program produced.
type Outcome struct {
	Rows   []Row   // rows read through Result.Scanner, in scan order
	Events []Event // Scan/WriterFunc observations
}

// RunAndScan runs p in sess, reads all rows through Result.Scanner, discards
// the result and returns rows and recorded side effects. It does not impose a
// timeout; wrap it in a watchdog.
func RunAndScan(ctx context.Context, sess *exec.Session, p Program) (Outcome, error) {
	return RunWith(ctx, sess, p, RunOpts{})
}

// RunOpts modifies RunWith.
type RunOpts struct {
	// NoScan: only Run, do not read the result (a result with zero columns
	// cannot be read back on the cluster executor). Outcome.Rows stays empty.
	NoScan bool
	// Inspect, if set, is called with the result after the scan (or after Run
	// failed to scan) and before the result is discarded.
	Inspect func(*exec.Result)
}

// RunWith is RunAndScan with options.
func RunWith(ctx context.Context, sess *exec.Session, p Program, opts RunOpts) (Outcome, error) {
	t, ok := p.Typecheck()
	if !ok {
		return Outcome{}, fmt.Errorf("refeval: ill-typed program %v", p)
	}
	tag, rec := NewRecording()
	defer DropRecording(tag)
	p.Tag = tag
	var res *exec.Result
	var err error
	if p.Shape == ShapeResult {
		// Two invocations: Prev (its callbacks are not recorded), then p over its Result.
		first := *p.Prev
		first.Tag = 0
		prev, err1 := sess.Run(ctx, Func, first)
		if err1 != nil {
			return Outcome{}, fmt.Errorf("run of the first invocation: %v", err1)
		}
		defer prev.Discard(ctx)
		res, err = sess.Run(ctx, Func2, p, prev)
	} else {
		res, err = sess.Run(ctx, Func, p)
	}
	if err != nil {
		return Outcome{Events: rec.Events()}, fmt.Errorf("run: %v", err)
	}
	defer res.Discard(ctx)
	if opts.Inspect != nil {
		defer opts.Inspect(res)
	}
	out := Outcome{Rows: []Row{}}
	if opts.NoScan {
		out.Events = rec.Events()
		return out, nil
	}
	types := goTypes(t.Cols)
	args := make([]interface{}, len(types))
	vals := make([]reflect.Value, len(types))
	for i, ty := range types {
		vals[i] = reflect.New(ty)
		args[i] = vals[i].Interface()
	}
	sc := res.Scanner()
	for sc.Scan(ctx, args...) {
		r := make(Row, len(vals))
		for i, v := range vals {
			r[i] = snapshot(v.Elem())
		}
		out.Rows = append(out.Rows, r)
	}
	err = sc.Err()
	if cerr := sc.Close(); err == nil && cerr != nil {
		err = cerr
	}
	out.Events = rec.Events()
	if err != nil {
		return out, fmt.Errorf("scan: %v", err)
	}
	return out, nil
}

// SetChunk sets bigslice's internal vector size everywhere it is kept: the
// flag-backed internal/defaultsize.Chunk (exec reads it through a pointer) and
// the copies that the root package, sliceio and sortio took at init (through
// the injected /verif/inject/*/common_chunk.go setters), plus the exported
// sliceio.SpillBatchSize. n must be a power of two: exec's combining hash
// table is created with n slots and panics otherwise. Call it before any
// session runs and not concurrently with runs.
func SetChunk(n int) error {
	if n < 1 || n&(n-1) != 0 {
		return fmt.Errorf("refeval.SetChunk: %d is not a power of two", n)
	}
	if err := flag.Set("bigslice-internal-default-chunk-rows", fmt.Sprint(n)); err != nil {
		return err
	}
	bigslice.VerifCommonSetChunk(n)
	sliceio.VerifCommonSetChunk(n)
	sortio.VerifCommonSetChunk(n)
	sliceio.SpillBatchSize = n
	return nil
}
