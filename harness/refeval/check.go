package refeval

import (
	"fmt"
	"sort"
	"strings"
)

// Mismatch is one disagreement between a run and the reference.
type Mismatch struct {
	// Oracle names the clause that failed, e.g. "rows/extra", "rows/missing",
	// "rows/order", "obs/WriterFunc/eos-missing". It is stable across inputs and
	// is meant to become part of a violation signature.
	Oracle string
	Detail string
}

func counts(rows []Row) map[string]int {
	m := map[string]int{}
	for _, r := range rows {
		m[CanonRow(r)]++
	}
	return m
}

// diff returns the canonical rows that are in a but not in b (with multiplicity).
func diff(a, b map[string]int) []string {
	var out []string
	for k, n := range a {
		for i := b[k]; i < n; i++ {
			out = append(out, k)
		}
	}
	sort.Strings(out)
	return out
}

func clip(s []string) string {
	if len(s) > 6 {
		return strings.Join(s[:6], " | ") + fmt.Sprintf(" | ... (%d)", len(s))
	}
	return strings.Join(s, " | ")
}

// CheckRows compares scanned rows with the reference.
func CheckRows(exp Expected, got []Row) []Mismatch {
	var out []Mismatch
	e, g := counts(exp.Rows), counts(got)
	extra, missing := diff(g, e), diff(e, g)
	if exp.Loose != nil {
		if len(extra) > 0 {
			out = append(out, Mismatch{"rows/extra", "rows not derivable from the input: " + clip(extra)})
		}
		if len(got) < exp.Loose.Min || len(got) > exp.Loose.Max {
			out = append(out, Mismatch{"rows/count", fmt.Sprintf("got %d rows, documentation allows %d..%d", len(got), exp.Loose.Min, exp.Loose.Max)})
		}
		return out
	}
	if len(extra) > 0 {
		out = append(out, Mismatch{"rows/extra", fmt.Sprintf("got %d rows, want %d; extra (duplicated or invented): %s", len(got), len(exp.Rows), clip(extra))})
	}
	if len(missing) > 0 {
		out = append(out, Mismatch{"rows/missing", fmt.Sprintf("got %d rows, want %d; missing: %s", len(got), len(exp.Rows), clip(missing))})
	}
	if len(out) == 0 && exp.OrderFixed {
		ce, cg := CanonRows(exp.Rows), CanonRows(got)
		for i := range ce {
			if ce[i] != cg[i] {
				out = append(out, Mismatch{"rows/order", fmt.Sprintf("row %d is %s, want %s (got %s; want %s)", i, cg[i], ce[i], clip(cg), clip(ce))})
				break
			}
		}
	}
	return out
}

// CheckObs compares the recorded Scan/WriterFunc observations of a
// FAILURE-FREE run with the reference: every row of every shard exactly once,
// then exactly one end-of-stream per shard.
func CheckObs(exp Expected, events []Event) []Mismatch {
	var out []Mismatch
	known := map[int]bool{}
	for _, o := range exp.Obs {
		known[o.Op] = true
		name := "obs/WriterFunc/"
		if o.Kind == ObsScan {
			name = "obs/Scan/"
		}
		bad := func(clause, format string, a ...interface{}) {
			out = append(out, Mismatch{name + clause, fmt.Sprintf("op %d: ", o.Op) + fmt.Sprintf(format, a...)})
		}
		perShard := make([][]Row, o.NumShard)
		eos := make([]int, o.NumShard)
		calls := make([]int, o.NumShard)
		var all []Row
		for _, e := range events {
			if e.Op != o.Op {
				continue
			}
			if e.Shard < 0 || e.Shard >= o.NumShard {
				bad("shard-range", "callback for shard %d of %d", e.Shard, o.NumShard)
				continue
			}
			if e.Err != "" {
				bad("error", "shard %d: error %q delivered in a failure-free run", e.Shard, e.Err)
			}
			if eos[e.Shard] > 0 {
				bad("after-eos", "shard %d: callback after end-of-stream (%d rows)", e.Shard, len(e.Rows))
			}
			calls[e.Shard]++
			perShard[e.Shard] = append(perShard[e.Shard], e.Rows...)
			all = append(all, e.Rows...)
			if e.EOS {
				eos[e.Shard]++
			}
		}
		for s := 0; s < o.NumShard; s++ {
			if o.Kind == ObsScan && calls[s] > 1 {
				bad("calls", "shard %d: scan callback invoked %d times", s, calls[s])
			}
			if eos[s] == 0 && !o.Partial {
				bad("eos-missing", "shard %d: no end-of-stream observed (%d callbacks, %d rows)", s, calls[s], len(perShard[s]))
			}
			if !o.CompKnown {
				continue
			}
			want, got := o.Shards[s], perShard[s]
			extra, missing := diff(counts(got), counts(want)), diff(counts(want), counts(got))
			if len(extra) > 0 {
				bad("shard-extra", "shard %d observed rows it does not hold (or twice): %s", s, clip(extra))
			}
			if len(missing) > 0 && (!o.Partial || eos[s] > 0) {
				bad("shard-missing", "shard %d did not observe: %s", s, clip(missing))
			}
			if o.OrderKnown && len(extra) == 0 && (len(missing) == 0 || o.Partial) {
				cw, cg := CanonRows(want), CanonRows(got)
				for i := range cg {
					if cg[i] != cw[i] {
						bad("shard-order", "shard %d observed %s, want (a prefix of) %s", s, clip(cg), clip(cw))
						break
					}
				}
			}
		}
		if !o.CompKnown {
			extra, missing := diff(counts(all), counts(o.All)), diff(counts(o.All), counts(all))
			if len(extra) > 0 {
				bad("extra", "observed rows that are not in the slice (or twice): %s", clip(extra))
			}
			if len(missing) > 0 && !o.Partial {
				bad("missing", "rows never observed: %s", clip(missing))
			}
		}
		if o.KeyCols > 0 {
			where := map[string]int{}
			for s, rows := range perShard {
				for _, r := range rows {
					k := keyOf(r, o.KeyCols)
					if prev, ok := where[k]; ok && prev != s {
						bad("key-split", "key %s observed in shards %d and %d", k, prev, s)
					}
					where[k] = s
				}
			}
		}
	}
	for _, e := range events {
		if !known[e.Op] {
			out = append(out, Mismatch{"obs/unexpected", fmt.Sprintf("callback of op %d, which is not a side-effecting operator", e.Op)})
			break
		}
	}
	return out
}

// Check applies every oracle of a failure-free run.
func Check(exp Expected, got Outcome) []Mismatch {
	return append(CheckRows(exp, got.Rows), CheckObs(exp, got.Events)...)
}
