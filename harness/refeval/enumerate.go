package refeval

// Options bounds the space Enumerate produces. Zero values select the defaults
// described at each field.
type Options struct {
	// Sizes: rows per source. Default {0,1,3,4,5,9} = empty, 1, chunk-1, chunk,
	// chunk+1, 2*chunk+1 for the internal vector size Chunk = 4. (The vector
	// size must be a power of two: exec's combining hash table is created with
	// that size and panics otherwise, so 3 is not usable.)
	Sizes []int
	// Shards: shard counts of sources and of Reshard. Default {1,2,3}.
	Shards []int
	// Sources: templates (Kind, Schema, Style are used). Default AllSources().
	Sources []Source
	// Alphabet: operators a chain is built from. Default FullAlphabet(Shards).
	// If Core is set, chains LONGER than FullDepth operators are built from
	// Core instead (Core should be a subset of Alphabet).
	Alphabet  []Op
	Core      []Op
	FullDepth int
	// Second: candidates for the second source of Cogroup:second (the key
	// column type is adapted). Default: 4 colliding rows in 3 shards; empty in 1 shard.
	Second []Source
	// Keys: key patterns. Default: every pattern that gives different data for
	// the size (1 pattern for <=1 row, 2 for 2 rows, else all 3).
	Keys []Keys
	// MinDepth: only chains of at least this many operators (and, if > 0, no
	// fixed shapes), so that a space can be assembled from several calls.
	MinDepth int
	// NoShapes excludes the fixed DAG shapes (which are otherwise appended
	// after the chains of depth 0). ShapeSources are the templates the shapes
	// are instantiated over (default: Const<int,int>), with every size, key
	// pattern and shard count.
	NoShapes     bool
	ShapeSources []Source
}

// Chunk is the internal vector size the default data sizes straddle. The
// check must set bigslice's internal default chunk size to this value.
const Chunk = 4

// AllSources returns the source templates of the grammar.
func AllSources() []Source {
	return []Source{
		{Kind: SrcConst, Schema: cols(Int, Int)},
		{Kind: SrcConst, Schema: cols(Str, Int)},
		{Kind: SrcConst, Schema: cols(Int, Int, Int)},
		{Kind: SrcReaderFunc, Schema: cols(Int, Int), Style: 0},
		{Kind: SrcReaderFunc, Schema: cols(Int, Int), Style: 1},
		{Kind: SrcReaderFunc, Schema: cols(Str, Int), Style: 2},
		{Kind: SrcScanReader, Schema: cols(Str), Style: 0},
		{Kind: SrcScanReader, Schema: cols(Str), Style: 1},
	}
}

// FullAlphabet is every operator variant of the grammar; Reshard takes each of shards.
func FullAlphabet(shards []int) []Op {
	var a []Op
	for v := 0; v < numMapVars; v++ {
		a = append(a, Op{Kind: OpMap, Var: v})
	}
	for v := 0; v < numFilterVars; v++ {
		a = append(a, Op{Kind: OpFilter, Var: v})
	}
	for v := 0; v < numFlatVars; v++ {
		a = append(a, Op{Kind: OpFlatmap, Var: v})
	}
	a = append(a, Op{Kind: OpFold})
	for _, n := range []int{0, 1, Chunk + 1} {
		a = append(a, Op{Kind: OpHead, N: n})
	}
	a = append(a, Op{Kind: OpReduce})
	for v := 0; v < numCgVars; v++ {
		a = append(a, Op{Kind: OpCogroup, Var: v})
	}
	a = append(a, Op{Kind: OpReshuffle})
	for v := 0; v < numRpVars; v++ {
		a = append(a, Op{Kind: OpRepartition, Var: v})
	}
	for _, n := range shards {
		a = append(a, Op{Kind: OpReshard, N: n})
	}
	a = append(a, Op{Kind: OpPrefixReduce}, Op{Kind: OpScan}, Op{Kind: OpWriterFunc})
	return a
}

// CoreAlphabet has one or two representative variants of every operator kind
// (used where the full alphabet makes deep chains too many).
func CoreAlphabet() []Op {
	return []Op{
		{Kind: OpMap, Var: MapKeyMod3}, {Kind: OpMap, Var: MapSwap}, {Kind: OpMap, Var: MapTo3},
		{Kind: OpMap, Var: MapParse}, {Kind: OpMap, Var: MapGroupSum},
		{Kind: OpFilter, Var: FilterAlt},
		{Kind: OpFlatmap, Var: Flat2}, {Kind: OpFlatmap, Var: FlatVar},
		{Kind: OpFold},
		{Kind: OpHead, N: 1}, {Kind: OpHead, N: Chunk + 1},
		{Kind: OpReduce},
		{Kind: OpCogroup, Var: CgSelf}, {Kind: OpCogroup, Var: CgSecond},
		{Kind: OpReshuffle},
		{Kind: OpRepartition, Var: RpMod},
		{Kind: OpReshard, N: 2},
		{Kind: OpPrefixReduce}, {Kind: OpScan}, {Kind: OpWriterFunc},
	}
}

func (o Options) withDefaults() Options {
	if o.Sizes == nil {
		o.Sizes = []int{0, 1, Chunk - 1, Chunk, Chunk + 1, 2*Chunk + 1}
	}
	if o.Shards == nil {
		o.Shards = []int{1, 2, 3}
	}
	if o.Sources == nil {
		o.Sources = AllSources()
	}
	if o.Alphabet == nil {
		o.Alphabet = FullAlphabet(o.Shards)
	}
	if o.ShapeSources == nil {
		o.ShapeSources = []Source{{Kind: SrcConst, Schema: cols(Int, Int)}}
	}
	if o.Second == nil {
		o.Second = []Source{
			{Kind: SrcConst, Rows: 4, Shards: 3, Keys: KeysCollide},
			{Kind: SrcConst, Rows: 0, Shards: 1, Keys: KeysDistinct},
		}
	}
	return o
}

// keyPatterns returns the key patterns that give different data for n rows.
func keyPatterns(n int) []Keys {
	switch {
	case n <= 1:
		return []Keys{KeysDistinct}
	case n == 2:
		return []Keys{KeysEqual, KeysDistinct}
	}
	return []Keys{KeysEqual, KeysDistinct, KeysCollide}
}

// Configs returns every data/shard configuration of the source templates:
// template x size x key pattern x shard count, smallest first.
func (o Options) Configs() []Source {
	o = o.withDefaults()
	return o.configs(o.Sources)
}

func (o Options) configs(templates []Source) []Source {
	var out []Source
	for _, n := range o.Sizes {
		ks := keyPatterns(n)
		if o.Keys != nil {
			ks = o.Keys
			if n <= 1 {
				ks = ks[:1]
			}
		}
		for _, k := range ks {
			for _, sh := range o.Shards {
				for _, t := range templates {
					s := t
					s.Schema = append([]Col(nil), t.Schema...)
					s.Rows, s.Keys, s.Shards = n, k, sh
					out = append(out, s)
				}
			}
		}
	}
	return out
}

// Chains returns every well-typed operator chain of exactly the given length
// over a source of type t, in alphabet order. Chains containing Cogroup:second
// are typed against a second source with the matching key column.
func (o Options) Chains(t Type, length int) [][]Op {
	o = o.withDefaults()
	var out [][]Op
	var rec func(t Type, prefix []Op)
	rec = func(t Type, prefix []Op) {
		if len(prefix) == length {
			out = append(out, append([]Op(nil), prefix...))
			return
		}
		alphabet := o.Alphabet
		if o.Core != nil && length > o.FullDepth {
			alphabet = o.Core
		}
		for _, op := range alphabet {
			var s2 *Source
			if op.Kind == OpCogroup && op.Var == CgSecond && len(t.Cols) > 0 {
				s2 = &Source{Kind: SrcConst, Schema: cols(t.Cols[0], Int), Shards: 1}
			}
			if nt, ok := Apply(t, op, s2); ok {
				rec(nt, append(prefix, op))
			}
		}
	}
	rec(t, nil)
	return out
}

// Enumerate returns every program of the grammar with a chain of at most
// `depth` operators: (chain) x (source configuration) [x second source], chains
// of length 0 first, then the fixed DAG shapes, then length 1, 2, ... The order
// is deterministic. Only well-typed programs whose result the documentation
// determines (Expected.Undetermined == false) are returned.
func Enumerate(depth int, opts Options) []Program {
	o := opts.withDefaults()
	configs := o.Configs()
	chainCache := map[string][][]Op{}
	var out []Program
	count, counting := 0, true
	emit := func(p Program) {
		if _, ok := p.Typecheck(); !ok {
			return
		}
		if p.undetermined() {
			return
		}
		if counting {
			count++
			return
		}
		out = append(out, p)
	}
	// Two passes: count, then fill a slice of exactly the right size.
pass:
	for d := o.MinDepth; d <= depth; d++ {
		for _, src := range configs {
			t := SourceType(src)
			key := string(rune('0'+d)) + src.Class()
			chains, ok := chainCache[key]
			if !ok {
				chains = o.Chains(t, d)
				chainCache[key] = chains
			}
			for _, ch := range chains {
				p := Program{Src: src, Ops: ch}
				if !p.usesSrc2() {
					emit(p)
					continue
				}
				// key type of the slice entering Cogroup:second
				kt := keyTypeAtSecond(p)
				for _, s2 := range o.Second {
					q := p
					q.Src2 = s2
					q.Src2.Schema = cols(kt, Int)
					emit(q)
				}
			}
		}
		if d == 0 && !o.NoShapes && !counting {
			out = append(out, o.shapes()...)
		}
	}
	if counting {
		counting = false
		if !o.NoShapes && o.MinDepth == 0 {
			count += len(o.shapes())
		}
		out = make([]Program, 0, count)
		goto pass
	}
	return out
}

func keyTypeAtSecond(p Program) Col {
	t := SourceType(p.Src)
	for _, op := range p.Ops {
		if op.Kind == OpCogroup && op.Var == CgSecond {
			return t.Cols[0]
		}
		s2 := &Source{Kind: SrcConst, Schema: cols(Int, Int), Shards: 1}
		t, _ = Apply(t, op, s2)
	}
	return Int
}

// shapes instantiates the fixed DAGs over every (int,int) source configuration,
// each with and without a trailing WriterFunc.
func (o Options) shapes() []Program {
	var out []Program
	configs := o.configs(o.ShapeSources)
	second := func(src Source) Source {
		// A second source that differs from the first in shard count and size.
		return Source{Kind: SrcConst, Schema: cols(Int, Int), Shards: 1 + src.Shards%3, Rows: 4, Keys: KeysCollide}
	}
	for _, src := range configs {
		if !eqCols(src.Schema, cols(Int, Int)) {
			continue
		}
		var ps []Program
		for _, n1 := range o.Shards {
			for _, n2 := range o.Shards {
				if n1 != n2 {
					ps = append(ps, Program{Shape: ShapeShared, Src: src, N1: n1, N2: n2})
					if n1 < n2 {
						out = append(out, Program{Shape: ShapeSharedWriter, Src: src, N1: n1, N2: n2})
					}
				}
			}
			ps = append(ps, Program{Shape: ShapeNested, Src: src, Src2: second(src), N1: n1})
		}
		ps = append(ps, Program{Shape: ShapeCogroup3, Src: src, Src2: second(src)})
		// ShapeFanout: every ordered pair of different consumers out of
		// {unshuffled, Reshard to each shard count}, with the shared slice
		// materialized and (control, for the pairs with an unshuffled consumer)
		// not materialized.
		kinds := append([]int{0}, o.Shards...)
		for _, n1 := range kinds {
			for _, n2 := range kinds {
				if n1 == n2 {
					continue
				}
				out = append(out, Program{Shape: ShapeFanout, Src: src, N1: n1, N2: n2, Ext: Ext{Pragma: PragmaMaterialize, PragmaPos: -2}})
				if n1 == 0 || n2 == 0 {
					out = append(out, Program{Shape: ShapeFanout, Src: src, N1: n1, N2: n2})
				}
			}
		}
		for _, p := range ps {
			out = append(out, p)
			q := p
			q.Ops = []Op{{Kind: OpWriterFunc}}
			out = append(out, q)
		}
	}
	return out
}

// undetermined mirrors the evaluator's bookkeeping without evaluating: a
// Head(n>=1) over shards whose order is not documented must be the last operator.
func (p Program) undetermined() bool {
	ordered := p.Shape == ShapeChain && !(p.Src.Kind == SrcScanReader && p.Src.Shards > 1)
	for i, o := range p.Ops {
		switch {
		case o.IsShuffle():
			ordered = false
		case o.Kind == OpHead && o.N == 0, o.Kind == OpScan:
			ordered = true
		case o.Kind == OpHead && !ordered:
			return i != len(p.Ops)-1
		}
	}
	return false
}
