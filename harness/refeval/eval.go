package refeval

// The reference evaluator: boring sequential Go over []Row implementing the
// documented meaning of each operator. It does not import or call bigslice.
//
// Besides the rows it tracks what the documentation FIXES about their
// placement: the number of shards, whether the composition of each shard is
// documented (sources we control, Repartition), and whether the order within
// shards is (shuffle-free pipelines only). Oracles demand a sequence only where
// the order is fixed and a per-shard comparison only where the composition is;
// everything else is compared as a multiset.
//
// Modelling decisions that go beyond the operator doc comments (recorded in the
// evidence as assumptions):
//   - Const splits its rows contiguously and evenly, the first (rows % nshard)
//     shards holding one more row (slice.go, doc comment of constShard).
//   - ScanReader "shards the file by lines": which line goes to which shard is
//     not documented, so with more than one shard only the multiset is known.
//   - Map/Flatmap/Head/Filter/WriterFunc/Scan keep the sharding of their input
//     ("matches the input slice's sharding"); Cogroup has as many shards as its
//     widest input; Reduce/Fold/Reshuffle/Repartition keep the shard count.
//   - Reshard(n) with n equal to the current shard count is still treated as a
//     shuffle (the doc promises nothing more).

// dataset is an intermediate slice value.
type dataset struct {
	typ        Type
	n          int     // NumShard
	shards     [][]Row // len n if compKnown, else one element holding all rows
	compKnown  bool
	orderKnown bool // implies compKnown
	keyed      int  // >0: rows equal in the first `keyed` columns are documented to share a shard
}

func (d dataset) all() []Row {
	var out []Row
	for _, s := range d.shards {
		out = append(out, s...)
	}
	return out
}

func unknown(t Type, n int, rows []Row) dataset {
	return dataset{typ: t, n: n, shards: [][]Row{rows}}
}

// Loose describes a result the documentation does not determine completely
// (Head over shards whose composition or order is not documented): the actual
// rows must be a sub-multiset of Expected.Rows with Min <= count <= Max.
type Loose struct{ Min, Max int }

// ObsKind distinguishes the two side-effecting operators.
type ObsKind uint8

const (
	ObsWriter ObsKind = iota
	ObsScan
)

// ExpectedObs is what the callbacks of the Scan/WriterFunc at Ops[Op] must observe.
type ExpectedObs struct {
	Op         int
	Kind       ObsKind
	NumShard   int
	CompKnown  bool    // Shards is the documented per-shard content
	OrderKnown bool    // ... in the documented order
	Shards     [][]Row // valid if CompKnown
	All        []Row   // all rows of all shards (multiset)
	// Partial: a Head downstream in the same pipeline may stop reading early;
	// then only "no row invented or duplicated, end-of-stream at most once and
	// only after every row" can be demanded.
	Partial bool
	// KeyCols > 0: rows with equal values in the first KeyCols columns must be
	// observed in the same shard (documented for Reshuffle).
	KeyCols int
}

// Expected is the reference result of a program.
type Expected struct {
	Type     Type
	NumShard int
	Rows     []Row
	// OrderFixed: Rows is the exact scan sequence (in-shard order, shards in
	// order). Otherwise Rows is a multiset.
	OrderFixed bool
	// Loose != nil: see Loose. Undetermined: the documentation does not
	// determine the result well enough for any useful oracle (operators applied
	// after a loose Head); Enumerate never returns such programs.
	Loose        *Loose
	Undetermined bool
	Obs          []ExpectedObs
}

// EvalOpts alters the reference for triage purposes only.
type EvalOpts struct {
	// ScanReaderSpuriousEmptyLine evaluates with a ScanReader that emits one
	// additional "" row before the first line (DESIGN.md §9 #8). Used to decide
	// whether a mismatch of a ScanReader program is that known defect.
	ScanReaderSpuriousEmptyLine bool
}

// Eval computes the reference result of a well-typed program.
func Eval(p Program) Expected { return EvalWith(p, EvalOpts{}) }

// EvalWith is Eval with options.
func EvalWith(p Program, opts EvalOpts) Expected {
	if _, ok := p.Typecheck(); !ok {
		panic("refeval.Eval: ill-typed program " + p.String())
	}
	ev := evaluator{opts: opts}
	src := func(s Source) dataset { return ev.source(s) }
	var d dataset
	var exp Expected
	switch p.Shape {
	case ShapeChain:
		d = src(p.Src)
	case ShapeShared, ShapeSharedWriter:
		base := ev.apply(src(p.Src), Op{Kind: OpMap, Var: MapAdd1}, nil)
		if p.Shape == ShapeSharedWriter {
			exp.Obs = append(exp.Obs, ExpectedObs{Op: -1, Kind: ObsWriter, NumShard: base.n, CompKnown: base.compKnown,
				OrderKnown: base.orderKnown, Shards: base.shards, All: base.all()})
		}
		a := ev.apply(base, Op{Kind: OpReshard, N: p.N1}, nil)
		b := ev.apply(base, Op{Kind: OpReshard, N: p.N2}, nil)
		d = cogroup(a, b)
	case ShapeResult:
		first := EvalWith(*p.Prev, opts)
		t, _ := p.RootType()
		d = unknown(t, first.NumShard, first.Rows)
		if first.Loose != nil || first.Undetermined {
			exp.Undetermined = true
		}
	case ShapeFanout:
		x := ev.apply(src(p.Src), Op{Kind: OpMap, Var: MapAdd1}, nil)
		d = cogroup(ev.apply(x, fanoutOp(p.N1), nil), ev.apply(x, fanoutOp(p.N2), nil))
	case ShapeNested:
		l := ev.apply(ev.apply(src(p.Src), Op{Kind: OpMap, Var: MapKeyMod3}, nil), Op{Kind: OpReduce}, nil)
		r := ev.apply(ev.apply(src(p.Src2), Op{Kind: OpReshard, N: p.N1}, nil), Op{Kind: OpFold}, nil)
		d = ev.apply(ev.apply(cogroup(l, r), Op{Kind: OpMap, Var: MapGroupSum}, nil), Op{Kind: OpReduce}, nil)
	case ShapeCogroup3:
		a := src(p.Src)
		d = cogroup(a, src(p.Src2), ev.apply(a, Op{Kind: OpFilter, Var: FilterAlt}, nil))
	}
	for i, o := range p.Ops {
		if ev.loose != nil {
			exp.Undetermined = true
			break
		}
		if o.Kind == OpWriterFunc || o.Kind == OpScan {
			obs := ExpectedObs{Op: i, Kind: ObsWriter, NumShard: d.n, CompKnown: d.compKnown, OrderKnown: d.orderKnown,
				All: d.all(), KeyCols: d.keyed}
			if o.Kind == OpScan {
				obs.Kind = ObsScan
			}
			if d.compKnown {
				obs.Shards = d.shards
			}
			for _, later := range p.Ops[i+1:] {
				if later.IsShuffle() {
					break
				}
				if later.Kind == OpHead {
					obs.Partial = true
				}
			}
			exp.Obs = append(exp.Obs, obs)
		}
		var s2 *dataset
		if o.Kind == OpCogroup && o.Var == CgSecond {
			x := src(p.Src2)
			s2 = &x
		}
		d = ev.apply(d, o, s2)
	}
	exp.Type = d.typ
	exp.NumShard = d.n
	exp.Rows = d.all()
	exp.OrderFixed = d.orderKnown && ev.loose == nil
	exp.Loose = ev.loose
	if exp.Rows == nil {
		exp.Rows = []Row{}
	}
	return exp
}

type evaluator struct {
	opts  EvalOpts
	loose *Loose
}

func (ev *evaluator) source(s Source) dataset {
	rows := SourceRows(s)
	t := SourceType(s)
	shards := make([][]Row, s.Shards)
	switch s.Kind {
	case SrcConst:
		quot, rem := len(rows)/s.Shards, len(rows)%s.Shards
		off := 0
		for i := range shards {
			c := quot
			if i < rem {
				c++
			}
			shards[i] = rows[off : off+c]
			off += c
		}
	case SrcReaderFunc:
		for i, r := range rows {
			shards[i%s.Shards] = append(shards[i%s.Shards], r)
		}
	case SrcScanReader:
		if ev.opts.ScanReaderSpuriousEmptyLine {
			rows = append([]Row{{""}}, rows...)
		}
		if s.Shards > 1 {
			return unknown(t, s.Shards, rows)
		}
		shards[0] = rows
	}
	return dataset{typ: t, n: s.Shards, shards: shards, compKnown: true, orderKnown: true}
}

// perRow applies a row-wise operator, which keeps whatever is known about placement.
func perRow(d dataset, t Type, f func(Row) []Row) dataset {
	out := d
	out.typ = t
	out.shards = make([][]Row, len(d.shards))
	for i, s := range d.shards {
		for _, r := range s {
			out.shards[i] = append(out.shards[i], f(r)...)
		}
	}
	return out
}

func keyOf(r Row, prefix int) string { return CanonRow(r[:prefix]) }

// groups returns the distinct keys in first-appearance order and the rows of each.
func groups(rows []Row, prefix int) ([]string, map[string][]Row) {
	var order []string
	m := map[string][]Row{}
	for _, r := range rows {
		k := keyOf(r, prefix)
		if _, ok := m[k]; !ok {
			order = append(order, k)
		}
		m[k] = append(m[k], r)
	}
	return order, m
}

func cogroup(in ...dataset) dataset {
	prefix := in[0].typ.Prefix
	t := Type{Cols: append([]Col(nil), in[0].typ.Cols[:prefix]...), Prefix: prefix, PrefixKnown: true}
	n := 0
	var order []string
	first := map[string]Row{}
	gs := make([]map[string][]Row, len(in))
	for i, d := range in {
		if d.n > n {
			n = d.n
		}
		for _, c := range d.typ.Cols[prefix:] {
			t.Cols = append(t.Cols, c.grouped())
		}
		var o []string
		o, gs[i] = groups(d.all(), prefix)
		for _, k := range o {
			if _, ok := first[k]; !ok {
				first[k] = gs[i][k][0]
				order = append(order, k)
			}
		}
	}
	var rows []Row
	for _, k := range order {
		row := copyRow(first[k][:prefix])
		for i, d := range in {
			for c := prefix; c < len(d.typ.Cols); c++ {
				switch d.typ.Cols[c] {
				case Int:
					vals := []int{}
					for _, r := range gs[i][k] {
						vals = append(vals, r[c].(int))
					}
					row = append(row, vals)
				case Str:
					vals := []string{}
					for _, r := range gs[i][k] {
						vals = append(vals, r[c].(string))
					}
					row = append(row, vals)
				case PtCol:
					vals := []Pt{}
					for _, r := range gs[i][k] {
						vals = append(vals, r[c].(Pt))
					}
					row = append(row, vals)
				}
			}
		}
		rows = append(rows, row)
	}
	return unknown(t, n, rows)
}

func (ev *evaluator) apply(d dataset, o Op, src2 *dataset) dataset {
	var s2 *Source
	if src2 != nil {
		s2 = &Source{Kind: SrcConst, Schema: src2.typ.Cols, Shards: 1}
	}
	t, ok := Apply(d.typ, o, s2)
	if !ok {
		panic("refeval: ill-typed operator " + o.String())
	}
	switch o.Kind {
	case OpMap:
		out := perRow(d, t, func(r Row) []Row { return []Row{mapFn(o.Var, r)} })
		out.keyed = 0
		return out
	case OpFilter:
		return perRow(d, t, func(r Row) []Row {
			if filterFn(o.Var, r) {
				return []Row{r}
			}
			return nil
		})
	case OpFlatmap:
		out := perRow(d, t, func(r Row) []Row { return flatFn(o.Var, r) })
		out.keyed = 0
		return out
	case OpWriterFunc, OpCache:
		return d
	case OpScan:
		return dataset{typ: t, n: d.n, shards: make([][]Row, d.n), compKnown: true, orderKnown: true}
	case OpHead:
		if o.N == 0 {
			return dataset{typ: t, n: d.n, shards: make([][]Row, d.n), compKnown: true, orderKnown: true, keyed: d.keyed}
		}
		if d.orderKnown {
			out := d
			out.shards = make([][]Row, len(d.shards))
			for i, s := range d.shards {
				if len(s) > o.N {
					s = s[:o.N]
				}
				out.shards[i] = s
			}
			return out
		}
		// At most the first N rows of each shard, but which rows a shard holds
		// (or in which order) is not documented.
		total := len(d.all())
		l := &Loose{}
		if d.compKnown {
			for _, s := range d.shards {
				l.Min += min(o.N, len(s))
			}
			l.Max = l.Min
		} else {
			l.Min = min(o.N, total)
			l.Max = min(total, o.N*d.n)
		}
		ev.loose = l
		return unknown(t, d.n, d.all())
	case OpFold:
		order, g := groups(d.all(), 1)
		var rows []Row
		for _, k := range order {
			acc := 0
			for _, r := range g[k] {
				acc = foldFn(acc, r[1:])
			}
			rows = append(rows, Row{g[k][0][0], acc})
		}
		return unknown(t, d.n, rows)
	case OpReduce, OpPrefixReduce:
		order, g := groups(d.all(), t.Prefix)
		var rows []Row
		for _, k := range order {
			v := len(t.Cols) - 1
			row := copyRow(g[k][0])
			for _, r := range g[k][1:] {
				row[v] = reduceFn(row[v], r[v])
			}
			rows = append(rows, row)
		}
		return unknown(t, d.n, rows)
	case OpCogroup:
		switch o.Var {
		case CgSingle:
			return cogroup(d)
		case CgSelf:
			return cogroup(d, d)
		default:
			return cogroup(d, *src2)
		}
	case OpReshuffle:
		out := unknown(t, d.n, d.all())
		out.keyed = t.Prefix
		return out
	case OpReshard:
		return unknown(t, o.N, d.all())
	case OpRepartition:
		shards := make([][]Row, d.n)
		for _, r := range d.all() {
			s := repartFn(o.Var, d.n, r)
			shards[s] = append(shards[s], r)
		}
		return dataset{typ: t, n: d.n, shards: shards, compKnown: true}
	}
	panic("refeval: operator")
}
