package refeval

import (
	"context"
	"fmt"
	"reflect"

	"github.com/grailbio/bigslice"
)

// Optional extensions of Program used by the differential check C04 (the zero
// value of Ext leaves a program exactly as it was):
//
//   - one bigslice pragma attached at one pipeline position,
//   - user functions of Map/Filter/Flatmap that take a context and report every
//     call (= every input row) to CountHook, so that a harness can count rows
//     in a metrics counter of the task's scope,
//   - the directory used by the OpCache operator.
//
// Positions. Pragmas are accepted by bigslice.ReaderFunc, Map, Filter and
// Flatmap only. A position is
//     i >= 0   Ops[i] (if it is a Map, Filter or Flatmap),
//     -1       the source Src (if it is a ReaderFunc),
//     <= -2    the (-2-k)-th operator INSIDE a fixed shape, in the order of
//              InternalOps (if it is a Map, Filter or Flatmap).
// The same numbering is passed to CountHook.

// PragmaKind selects the pragma.
type PragmaKind uint8

const (
	PragmaNone        PragmaKind = iota
	PragmaProcs2                 // bigslice.Procs(2)
	PragmaExclusive              // bigslice.Exclusive
	PragmaMaterialize            // bigslice.ExperimentalMaterialize
)

func (k PragmaKind) String() string {
	return [...]string{"none", "Procs(2)", "Exclusive", "Materialize"}[k]
}

// Ext is embedded in Program.
type Ext struct {
	Pragma    PragmaKind
	PragmaPos int
	// Count: the user functions of Map/Filter/Flatmap are built with a leading
	// context.Context parameter and call CountHook(ctx, position) once per call.
	Count bool
	// CacheDir is the directory below which OpCache keeps its files.
	CacheDir string
}

// String is empty for the zero value (CacheDir is a run-time detail and is not shown).
func (e Ext) String() string {
	s := ""
	if e.Pragma != PragmaNone {
		s += fmt.Sprintf(" pragma=%v@%d", e.Pragma, e.PragmaPos)
	}
	if e.Count {
		s += " counting"
	}
	return s
}

// CountHook is called by the counting user functions (Program.Count). It must
// be set before any program runs and is shared by all programs of the process.
var CountHook func(ctx context.Context, pos int)

var typCtx = reflect.TypeOf((*context.Context)(nil)).Elem()

func (p Program) pragmasAt(pos int) []bigslice.Pragma {
	if p.Pragma == PragmaNone || p.PragmaPos != pos {
		return nil
	}
	switch p.Pragma {
	case PragmaProcs2:
		return []bigslice.Pragma{bigslice.Procs(2)}
	case PragmaExclusive:
		return []bigslice.Pragma{bigslice.Exclusive}
	case PragmaMaterialize:
		return []bigslice.Pragma{bigslice.ExperimentalMaterialize}
	}
	panic("refeval: pragma kind")
}

// userFunc makes the typed user function func([ctx,] in...) (out...) around f
// for the operator at position pos.
func (p Program) userFunc(pos int, in, out []reflect.Type, f func([]reflect.Value) []reflect.Value) interface{} {
	if !p.Count {
		return mkFunc(in, out, f)
	}
	cin := append([]reflect.Type{typCtx}, in...)
	return mkFunc(cin, out, func(a []reflect.Value) []reflect.Value {
		if CountHook != nil {
			CountHook(a[0].Interface().(context.Context), pos)
		}
		return f(a[1:])
	})
}

// InternalOps lists the operators that Build applies inside a fixed shape, in
// order; the k-th has position -2-k. (Empty for ShapeChain.)
func (p Program) InternalOps() []Op {
	switch p.Shape {
	case ShapeShared:
		return []Op{{Kind: OpMap, Var: MapAdd1}, {Kind: OpReshard, N: p.N1}, {Kind: OpReshard, N: p.N2}}
	case ShapeSharedWriter:
		return []Op{{Kind: OpMap, Var: MapAdd1}, {Kind: OpWriterFunc}, {Kind: OpReshard, N: p.N1}, {Kind: OpReshard, N: p.N2}}
	case ShapeNested:
		return []Op{{Kind: OpMap, Var: MapKeyMod3}, {Kind: OpReduce}, {Kind: OpReshard, N: p.N1}, {Kind: OpFold},
			{Kind: OpMap, Var: MapGroupSum}, {Kind: OpReduce}}
	case ShapeCogroup3:
		return []Op{{Kind: OpFilter, Var: FilterAlt}}
	case ShapeFanout:
		return []Op{{Kind: OpMap, Var: MapAdd1}, fanoutOp(p.N1), fanoutOp(p.N2)}
	}
	return nil
}

func takesPragma(o Op) bool {
	return o.Kind == OpMap || o.Kind == OpFilter || o.Kind == OpFlatmap
}

// PragmaPositions returns every position of p at which a pragma can be attached
// (and at which a counting user function reports), in pipeline order.
func (p Program) PragmaPositions() []int {
	var out []int
	if p.Src.Kind == SrcReaderFunc {
		out = append(out, -1)
	}
	for k, o := range p.InternalOps() {
		if takesPragma(o) {
			out = append(out, -2-k)
		}
	}
	for i, o := range p.Ops {
		if takesPragma(o) {
			out = append(out, i)
		}
	}
	return out
}

// CountPositions returns the positions whose user functions call CountHook
// (the source has no per-row user function that receives a context).
func (p Program) CountPositions() []int {
	var out []int
	for _, pos := range p.PragmaPositions() {
		if pos != -1 {
			out = append(out, pos)
		}
	}
	return out
}

// OpAt returns the operator at a position (>= 0 or <= -2).
func (p Program) OpAt(pos int) Op {
	if pos >= 0 {
		return p.Ops[pos]
	}
	return p.InternalOps()[-2-pos]
}
