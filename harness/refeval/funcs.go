package refeval

import (
	"fmt"
	"sort"
	"strconv"
	"strings"
)

// This file holds the USER functions of the programs (the functions a user
// would pass to Map, Filter, ...) as plain Go over Row, and the generated input
// data. Both the builder (which wraps them with reflect.MakeFunc into the typed
// signatures bigslice wants) and the reference evaluator apply these same
// functions: they are part of the program, not of the system under test.
//
// Every function that looks at a grouped ([]int / []string) column is
// insensitive to the order of its elements, because Cogroup does not document
// an order of the values within a group.

// weight is an order-insensitive digest of values.
func weight(vals []interface{}) int {
	w := 0
	for _, v := range vals {
		switch x := v.(type) {
		case int:
			w += x
		case string:
			w += len(x)
			for i := 0; i < len(x); i++ {
				w += int(x[i])
			}
		case []int:
			w += 1000 * len(x)
			for _, e := range x {
				w += e
			}
		case []string:
			w += 1000 * len(x)
			for _, e := range x {
				w += len(e)
			}
		case Pt:
			w += ptWeight(x)
		case []Pt:
			w += 1000 * len(x)
			for _, e := range x {
				w += ptWeight(e)
			}
		}
	}
	if w < 0 {
		w = -w
	}
	return w
}

func ptWeight(p Pt) int {
	w := int(p.X) + 3*int(p.Y)
	if p.Ok {
		w += 5
	}
	return w
}

// ptValue is the Pt of source row i: every field is zero in some rows and
// non-zero in others, without a common period, so that a zero field is decoded
// over a non-zero one at the same position of the previous batch.
func ptValue(i int) Pt {
	return Pt{X: int32(i % 3), Y: int32((i/2)%2) * 7, Ok: i%4 == 1}
}

func copyRow(r Row) Row { return append(Row(nil), r...) }

// mapFn is the function of Map variant v.
func mapFn(v int, r Row) Row {
	n := len(r)
	switch v {
	case MapAdd1:
		o := copyRow(r)
		o[n-1] = r[n-1].(int) + 1
		return o
	case MapSwap:
		return Row{r[1], r[0]}
	case MapKeyMod3:
		o := copyRow(r)
		k := r[0].(int) % 3
		if k < 0 {
			k = -k
		}
		o[0] = k
		return o
	case MapIntToStr:
		o := copyRow(r)
		o[n-1] = "s" + strconv.Itoa(r[n-1].(int))
		return o
	case MapTo3:
		k := r[0].(int)
		return Row{((k % 2) + 2) % 2, k, r[1]}
	case MapParse:
		s := r[0].(string)
		i := strings.IndexByte(s, ':')
		if i < 0 {
			return Row{-1, len(s)}
		}
		k, err1 := strconv.Atoi(s[:i])
		val, err2 := strconv.Atoi(s[i+1:])
		if err1 != nil || err2 != nil {
			return Row{-1, len(s)}
		}
		return Row{k, val}
	case MapGroupSum:
		var o Row
		var groups []interface{}
		for _, x := range r {
			switch x.(type) {
			case int, string:
				o = append(o, x)
			default:
				groups = append(groups, x)
			}
		}
		return append(o, weight(groups))
	}
	panic("refeval: map variant")
}

func filterFn(v int, r Row) bool {
	switch v {
	case FilterAll:
		return true
	case FilterNone:
		return false
	case FilterAlt:
		return weight(r)%2 == 0
	case FilterMod3:
		return weight(r)%3 != 0
	}
	panic("refeval: filter variant")
}

// flatFn returns the output rows of Flatmap variant v for one input row.
func flatFn(v int, r Row) []Row {
	k := 0
	switch v {
	case Flat0:
		k = 0
	case Flat1:
		k = 1
	case Flat2:
		k = 2
	case Flat5:
		k = 5
	case FlatVar:
		k = weight(r) % 3
	default:
		panic("refeval: flatmap variant")
	}
	out := make([]Row, k)
	for j := range out {
		o := copyRow(r)
		if x, ok := o[len(o)-1].(int); ok {
			o[len(o)-1] = x + 100*j
		}
		out[j] = o
	}
	return out
}

// foldFn is the accumulator function of Fold: acc + weight(values).
func foldFn(acc int, vals []interface{}) int { return acc + weight(vals) }

// reduceFn is the (commutative, associative) combiner of Reduce.
func reduceFn(a, b interface{}) interface{} {
	switch x := a.(type) {
	case int:
		return x + b.(int)
	case string:
		if y := b.(string); y > x {
			return y
		}
		return x
	}
	panic("refeval: reduce type")
}

func repartFn(v int, nshard int, r Row) int {
	switch v {
	case RpZero:
		return 0
	case RpMod:
		return weight(r) % nshard
	}
	panic("refeval: repartition variant")
}

// ---- data ------------------------------------------------------------------

func keyInt(k Keys, i int) int {
	switch k {
	case KeysEqual:
		return 7
	case KeysDistinct:
		return i
	}
	return i % 2
}

// SourceRows returns the rows of a source in their global order (row i).
func SourceRows(s Source) []Row {
	rows := make([]Row, s.Rows)
	for i := range rows {
		k, v := keyInt(s.Keys, i), 10+i
		switch {
		case s.Kind == SrcScanReader:
			rows[i] = Row{strconv.Itoa(k) + ":" + strconv.Itoa(v)}
		case len(s.Schema) == 3:
			rows[i] = Row{k, (i / 2) % 2, v}
		case s.Schema[1] == PtCol:
			rows[i] = Row{k, ptValue(i)}
		case s.Schema[0] == Str:
			rows[i] = Row{"k" + strconv.Itoa(k), v}
		default:
			rows[i] = Row{k, v}
		}
	}
	return rows
}

// SourceText is the text a ScanReader source reads.
func SourceText(s Source) string {
	var b strings.Builder
	rows := SourceRows(s)
	for i, r := range rows {
		b.WriteString(r[0].(string))
		if i < len(rows)-1 || s.Style == 0 {
			b.WriteByte('\n')
		}
	}
	return b.String()
}

// ---- canonical forms -------------------------------------------------------

// CanonRow renders a row with grouped columns sorted (their order is not
// documented), so that equal rows have equal strings.
func CanonRow(r Row) string {
	var b strings.Builder
	for i, v := range r {
		if i > 0 {
			b.WriteByte(' ')
		}
		switch x := v.(type) {
		case int:
			b.WriteString(strconv.Itoa(x))
		case string:
			b.WriteString(strconv.Quote(x))
		case []int:
			y := append([]int(nil), x...)
			sort.Ints(y)
			b.WriteByte('[')
			for j, e := range y {
				if j > 0 {
					b.WriteByte(',')
				}
				b.WriteString(strconv.Itoa(e))
			}
			b.WriteByte(']')
		case []string:
			y := append([]string(nil), x...)
			sort.Strings(y)
			b.WriteByte('[')
			for j, e := range y {
				if j > 0 {
					b.WriteByte(',')
				}
				b.WriteString(strconv.Quote(e))
			}
			b.WriteByte(']')
		case Pt:
			b.WriteString(fmt.Sprint(x))
		case []Pt:
			y := make([]string, len(x))
			for j, e := range x {
				y[j] = fmt.Sprint(e)
			}
			sort.Strings(y)
			b.WriteString("[" + strings.Join(y, ",") + "]")
		default:
			b.WriteString("?")
		}
	}
	return b.String()
}

// CanonRows renders every row.
func CanonRows(rows []Row) []string {
	out := make([]string, len(rows))
	for i, r := range rows {
		out[i] = CanonRow(r)
	}
	return out
}

// Multiset is the sorted canonical form of a multiset of rows.
func Multiset(rows []Row) string {
	c := CanonRows(rows)
	sort.Strings(c)
	return strings.Join(c, "\n")
}
