package refeval

import (
	"fmt"

	"github.com/grailbio/bigslice"
)

// Two-invocation programs. A Program with Shape == ShapeResult describes the
// SECOND invocation of a session history
//
//	res := sess.Run(Func, *p.Prev)            // first invocation
//	sess.Run(Func2, p, res)                    // second: p.Ops over res
//
// in which the *exec.Result of the first invocation is the input slice of the
// second (bigslice: "a Result is the only Slice that is a legal argument of a
// Func"). N1 > 0 wraps the result in bigslice.Prefixed(res, N1) first, i.e. the
// second invocation re-keys the stored rows; N1 == 0 uses it as it is, with the
// prefix of the first program's result type. RunAndScan/RunWith perform both
// invocations; Eval evaluates Prev and continues with Ops. The rows of a
// Result are the first program's rows; which shard holds which row is treated
// as undocumented, so only multisets (and key co-location after Reshuffle) are
// demanded of the second invocation.

// Func2 builds the second invocation of a ShapeResult program over the Result
// of the first.
var Func2 = bigslice.Func(func(p Program, prev bigslice.Slice) bigslice.Slice { return p.BuildOn(prev) })

// BuildOn constructs the slice of a ShapeResult program over prev.
func (p Program) BuildOn(prev bigslice.Slice) bigslice.Slice {
	t, ok := p.RootType()
	if !ok || p.Shape != ShapeResult {
		panic("refeval.BuildOn: invalid program " + p.String())
	}
	s := prev
	if p.N1 > 0 {
		s = bigslice.Prefixed(prev, p.N1)
	}
	for i, o := range p.Ops {
		s, t = p.buildOp(s, t, o, i, i)
	}
	return s
}

func (p Program) resultRootType() (Type, bool) {
	if p.Prev == nil || p.Prev.Shape == ShapeResult || p.N1 < 0 {
		return Type{}, false
	}
	t, ok := p.Prev.Typecheck()
	if !ok || len(t.Cols) == 0 || !t.PrefixKnown {
		return Type{}, false
	}
	out := Type{Cols: t.Cols, Prefix: t.Prefix, PrefixKnown: true}
	if p.N1 > 0 {
		out.Prefix = p.N1
	}
	if out.Prefix > len(out.Cols) {
		return Type{}, false
	}
	return out, true
}

func (p Program) resultString() string {
	s := "result{<nil>}"
	if p.Prev != nil {
		s = "result{" + p.Prev.String() + "}"
	}
	if p.N1 > 0 {
		s += fmt.Sprintf(" prefixed=%d", p.N1)
	}
	for _, o := range p.Ops {
		s += " | " + o.String()
	}
	return s + p.Ext.String()
}

// FirstSource is the source whose data the program starts from: Src, or the
// first invocation's Src for a ShapeResult program.
func (p Program) FirstSource() Source {
	if p.Shape == ShapeResult && p.Prev != nil {
		return p.Prev.Src
	}
	return p.Src
}

// ResultPrograms returns the two-invocation programs
//
//	first x prefix x chain
//
// for every program in firsts, every re-keying prefix in prefixes (0 = none)
// and every well-typed chain of exactly `length` operators over alphabet,
// type-filtered and deterministic. Chains with Cogroup:second are not generated.
func ResultPrograms(firsts []Program, prefixes []int, alphabet []Op, length int) []Program {
	var out []Program
	o := Options{Alphabet: alphabet}.withDefaults()
	for i := range firsts {
		first := firsts[i]
		if e := Eval(first); e.Loose != nil || e.Undetermined {
			continue
		}
		for _, n := range prefixes {
			root := Program{Shape: ShapeResult, Prev: &first, N1: n}
			t, ok := root.RootType()
			if !ok {
				continue
			}
			if n > 0 && n == t.Prefix {
				if ft, _ := first.Typecheck(); ft.Prefix == n {
					continue // the same as prefix 0
				}
			}
			for _, ch := range o.Chains(t, length) {
				p := root
				p.Ops = ch
				if p.usesSrc2() || p.undetermined() {
					continue
				}
				if _, ok := p.Typecheck(); ok {
					out = append(out, p)
				}
			}
		}
	}
	return out
}
