// Package refeval is engine E5 of /verif/DESIGN.md: a tiny program AST for
// bigslice programs, a builder that turns an AST into the real bigslice.Slice
// (inside ONE registered bigslice.Func, so that the same binary also serves as
// a worker), an exhaustive type-filtered enumerator, and a sequential reference
// evaluator over [][]interface{} that implements the DOCUMENTED meaning of each
// operator without calling any bigslice code (eval.go imports only the standard
// library).
//
// Programs are plain data (gob-encodable): sources carry a data-set
// description (kind, schema, rows, key pattern, shards) from which the rows are
// generated deterministically; operators are (kind, variant, n) triples whose
// user functions are chosen from the fixed table in funcs.go.
package refeval

import (
	"fmt"
	"strings"
)

// Col is a column type. Int and Str are scalar; Ints and Strs only arise as
// the grouped value columns produced by Cogroup.
type Col uint8

const (
	Int Col = iota
	Str
	Ints
	Strs
	// PtCol is a column of the pointer-free struct type Pt (gob encodes such a
	// column field by field and omits zero fields). It can only be a value
	// column. PtsCol is its grouped form.
	PtCol
	PtsCol
)

// Pt is a pointer-free struct column value.
type Pt struct {
	X, Y int32
	Ok   bool
}

// scalar: usable as a key column. atom: not a grouped column.
func (c Col) scalar() bool { return c == Int || c == Str }
func (c Col) atom() bool   { return c == Int || c == Str || c == PtCol }

// grouped is the column type Cogroup makes of a value column.
func (c Col) grouped() Col {
	switch c {
	case Int:
		return Ints
	case Str:
		return Strs
	case PtCol:
		return PtsCol
	}
	panic("refeval: grouped column of a grouped column")
}

func (c Col) String() string {
	return [...]string{"int", "string", "[]int", "[]string", "pt", "[]pt"}[c]
}

// Row is one row: values of type int, string, []int or []string.
type Row = []interface{}

// SrcKind selects the source constructor.
type SrcKind uint8

const (
	SrcConst      SrcKind = iota // bigslice.Const; rows split contiguously
	SrcReaderFunc                // bigslice.ReaderFunc; row i belongs to shard i%Shards
	SrcScanReader                // bigslice.ScanReader over Rows lines "k:v"
)

// Keys is the key pattern of a generated data set.
type Keys uint8

const (
	KeysEqual    Keys = iota // every row has the same key
	KeysDistinct             // every row has a different key
	KeysCollide              // keys repeat (i%2), so groups have >1 member
)

// Source describes a source slice and its data.
type Source struct {
	Kind   SrcKind
	Schema []Col // Const/ReaderFunc: (int,int), (string,int), (int,int,int) or (int,pt); ScanReader: (string)
	Shards int
	Rows   int
	Keys   Keys
	// Style: ReaderFunc: 0 = fill the whole vector, deliver EOF together with the
	// last rows; 1 = one row per call, then (0, EOF); 2 = like 0 but an empty
	// (0, nil) call first. ScanReader: 0 = text ends in "\n", 1 = no final "\n".
	Style int
}

// OpKind is an operator of the chain grammar.
type OpKind uint8

const (
	OpMap OpKind = iota
	OpFilter
	OpFlatmap
	OpFold
	OpHead
	OpReduce
	OpCogroup
	OpReshuffle
	OpRepartition
	OpReshard
	OpPrefixReduce // Reduce(Prefixed(s, 2))
	OpScan
	OpWriterFunc
	// OpCache is bigslice.Cache(s, Program.CacheDir/...): the identity on rows.
	// It is not part of any alphabet of the enumerator (see ext.go).
	OpCache
	numOpKinds
)

var opNames = [...]string{"Map", "Filter", "Flatmap", "Fold", "Head", "Reduce", "Cogroup", "Reshuffle", "Repartition", "Reshard", "Prefixed2Reduce", "Scan", "WriterFunc", "Cache"}

// Variants (Op.Var).
const (
	MapAdd1     = iota // last column (int) + 1
	MapSwap            // two scalar columns swapped
	MapKeyMod3         // first column (int) modulo 3: creates key collisions
	MapIntToStr        // last column int -> string
	MapTo3             // (k,v) -> (k%2, k, v)
	MapParse           // (line) -> (k, v) parsed from "k:v"
	MapGroupSum        // (keys..., groups...) -> (keys..., order-independent digest)
	numMapVars
)
const (
	FilterAll  = iota // keep everything
	FilterNone        // keep nothing
	FilterAlt         // keep rows of even weight
	FilterMod3        // keep rows whose weight is not a multiple of 3 (rejects about a third)
	numFilterVars
)
const (
	Flat0   = iota // no output row
	Flat1          // the row itself
	Flat2          // two rows
	Flat5          // five rows (more than the vector size of 4)
	FlatVar        // weight%3 rows
	numFlatVars
)
const (
	CgSingle = iota // Cogroup(s)
	CgSelf          // Cogroup(s, s)
	CgSecond        // Cogroup(s, Program.Src2)
	numCgVars
)
const (
	RpZero = iota // every row to shard 0
	RpMod         // weight % nshard
	numRpVars
)

var mapVarNames = [...]string{"add1", "swap", "keymod3", "int2str", "to3", "parse", "groupsum"}
var filterVarNames = [...]string{"all", "none", "alt", "mod3"}
var flatVarNames = [...]string{"0", "1", "2", "5", "var"}
var cgVarNames = [...]string{"single", "self", "second"}
var rpVarNames = [...]string{"zero", "mod"}

// Op is one operator application.
type Op struct {
	Kind OpKind
	Var  int // variant (see constants); unused for most kinds
	N    int // Head: row count; Reshard: shard count
}

func (o Op) String() string {
	switch o.Kind {
	case OpMap:
		return "Map:" + mapVarNames[o.Var]
	case OpFilter:
		return "Filter:" + filterVarNames[o.Var]
	case OpFlatmap:
		return "Flatmap:" + flatVarNames[o.Var]
	case OpCogroup:
		return "Cogroup:" + cgVarNames[o.Var]
	case OpRepartition:
		return "Repartition:" + rpVarNames[o.Var]
	case OpHead:
		return fmt.Sprintf("Head(%d)", o.N)
	case OpReshard:
		return fmt.Sprintf("Reshard(%d)", o.N)
	}
	return opNames[o.Kind]
}

// Class is the operator without its shard-count parameter (used in violation signatures).
func (o Op) Class() string {
	if o.Kind == OpReshard {
		return "Reshard"
	}
	return o.String()
}

// IsShuffle reports whether the operator redistributes rows between shards.
func (o Op) IsShuffle() bool {
	switch o.Kind {
	case OpFold, OpReduce, OpCogroup, OpReshuffle, OpRepartition, OpReshard, OpPrefixReduce:
		return true
	}
	return false
}

// Shape selects the DAG. ShapeChain is Src followed by Ops; the others are the
// fixed DAGs that a chain cannot express, with Ops applied to their root.
type Shape uint8

const (
	ShapeChain Shape = iota
	// ShapeShared: base = Map:add1(Src); Cogroup(Reshard(base, N1), Reshard(base, N2)):
	// one sub-slice consumed by two consumers with different shard counts.
	ShapeShared
	// ShapeNested: l = Reduce(Map:keymod3(Src)); r = Fold(Reshard(Src2, N1));
	// Reduce(Map:groupsum(Cogroup(l, r))): shuffles below and above a cogroup.
	ShapeNested
	// ShapeCogroup3: Cogroup(Src, Src2, Filter:alt(Src)): three inputs, one source used twice.
	ShapeCogroup3
	// ShapeSharedWriter is ShapeShared with base = WriterFunc(Map:add1(Src)):
	// a side-effecting operator inside the shared sub-slice (its observations
	// are recorded under operator index -1).
	ShapeSharedWriter
	// ShapeFanout: x = Map:add1(Src); Cogroup(A, B) where A and B each consume
	// x, chosen by N1 resp. N2: 0 = Filter:all(x) (no shuffle of its own),
	// n >= 1 = Reshard(x, n). With Ext{Pragma: PragmaMaterialize, PragmaPos: -2}
	// x is materialized, i.e. compiled on its own as a non-shuffle dependency
	// of Filter:all AND as a shuffle dependency with n partitions of Reshard.
	ShapeFanout
	// ShapeResult is the second invocation of a two-invocation program (see
	// multi.go): Prev is run first; its *exec.Result, wrapped in
	// bigslice.Prefixed(res, N1) if N1 > 0, is the slice Ops are applied to.
	ShapeResult
	numShapes
)

var shapeNames = [...]string{"chain", "shared", "nested", "cogroup3", "sharedwriter", "fanout", "result"}

// fanoutOp is the consumer of ShapeFanout selected by n.
func fanoutOp(n int) Op {
	if n == 0 {
		return Op{Kind: OpFilter, Var: FilterAll}
	}
	return Op{Kind: OpReshard, N: n}
}

// Program is a complete bigslice program with its input data.
type Program struct {
	Shape  Shape
	Src    Source
	Src2   Source // second source (Cogroup:second and the fixed shapes)
	N1, N2 int    // shard counts of the fixed shapes
	Ops    []Op
	// Tag selects the side-effect recording table that Scan/WriterFunc
	// callbacks write to (see NewRecording). 0 = callbacks do not record.
	Tag uint64
	// Prev is the first invocation of a ShapeResult program (nil otherwise).
	Prev *Program
	// Ext holds the optional extensions of ext.go (pragma placement, row
	// counting, cache directory). The zero value changes nothing.
	Ext
}

func (s Source) String() string {
	kind := [...]string{"Const", "ReaderFunc", "ScanReader"}[s.Kind]
	cols := make([]string, len(s.Schema))
	for i, c := range s.Schema {
		cols[i] = c.String()
	}
	keys := [...]string{"eq", "distinct", "collide"}[s.Keys]
	return fmt.Sprintf("%s<%s>{shards=%d rows=%d keys=%s style=%d}", kind, strings.Join(cols, ","), s.Shards, s.Rows, keys, s.Style)
}

// Class is the source constructor and schema (no data parameters).
func (s Source) Class() string {
	kind := [...]string{"Const", "ReaderFunc", "ScanReader"}[s.Kind]
	cols := make([]string, len(s.Schema))
	for i, c := range s.Schema {
		cols[i] = c.String()
	}
	return kind + "<" + strings.Join(cols, ",") + ">"
}

// String is a canonical, complete description of the program (Tag excluded).
func (p Program) String() string {
	var b strings.Builder
	if p.Shape == ShapeResult {
		return p.resultString()
	}
	b.WriteString(shapeNames[p.Shape])
	b.WriteString(" ")
	b.WriteString(p.Src.String())
	if p.usesSrc2() {
		b.WriteString(" src2=" + p.Src2.String())
	}
	if p.Shape == ShapeShared || p.Shape == ShapeSharedWriter || p.Shape == ShapeFanout {
		fmt.Fprintf(&b, " n1=%d n2=%d", p.N1, p.N2)
	}
	if p.Shape == ShapeNested {
		fmt.Fprintf(&b, " n1=%d", p.N1)
	}
	for _, o := range p.Ops {
		b.WriteString(" | " + o.String())
	}
	b.WriteString(p.Ext.String())
	return b.String()
}

// Skeleton is the program without data parameters: shape, source classes and
// operator classes. Violation signatures are built from it.
func (p Program) Skeleton() string {
	parts := []string{shapeNames[p.Shape], p.Src.Class()}
	if p.Shape == ShapeResult && p.Prev != nil {
		parts = []string{"result", "{" + p.Prev.Skeleton() + "}", fmt.Sprintf("Prefixed(%d)", p.N1)}
	}
	for _, o := range p.Ops {
		parts = append(parts, o.Class())
	}
	return strings.Join(parts, "/")
}

func (p Program) usesSrc2() bool {
	if p.Shape == ShapeNested || p.Shape == ShapeCogroup3 {
		return true
	}
	for _, o := range p.Ops {
		if o.Kind == OpCogroup && o.Var == CgSecond {
			return true
		}
	}
	return false
}

// NumShuffles is the number of shuffle steps in the program.
func (p Program) NumShuffles() int {
	n := 0
	switch p.Shape {
	case ShapeResult:
		if p.Prev != nil {
			n = p.Prev.NumShuffles()
		}
	case ShapeShared, ShapeSharedWriter:
		n = 3
	case ShapeNested:
		n = 5
	case ShapeCogroup3:
		n = 1
	case ShapeFanout:
		n = 1
		if p.N1 > 0 {
			n++
		}
		if p.N2 > 0 {
			n++
		}
	}
	for _, o := range p.Ops {
		if o.IsShuffle() {
			n++
		}
	}
	return n
}

// ---- typing ----------------------------------------------------------------

// Type is the static type of a slice as far as the documentation defines it.
type Type struct {
	Cols []Col
	// Prefix is the number of key columns. PrefixKnown is false where the
	// documentation does not say what the prefix of an operator's output is
	// (Map/Flatmap over a slice with prefix > 1); keyed operators are not
	// generated there.
	Prefix      int
	PrefixKnown bool
}

func (t Type) keysScalar() bool {
	if t.Prefix > len(t.Cols) {
		return false
	}
	for _, c := range t.Cols[:t.Prefix] {
		if !c.scalar() {
			return false
		}
	}
	return true
}

// atoms reports whether no column is grouped and the key columns are scalar.
func (t Type) atoms() bool {
	for _, c := range t.Cols {
		if !c.atom() {
			return false
		}
	}
	return t.keysScalar()
}

func (t Type) allScalar() bool {
	for _, c := range t.Cols {
		if !c.scalar() {
			return false
		}
	}
	return true
}

func eqCols(a, b []Col) bool {
	if len(a) != len(b) {
		return false
	}
	for i := range a {
		if a[i] != b[i] {
			return false
		}
	}
	return true
}

func cols(c ...Col) []Col { return c }

// SourceType is the type of a source slice.
func SourceType(s Source) Type {
	return Type{Cols: append([]Col(nil), s.Schema...), Prefix: 1, PrefixKnown: true}
}

// ValidSource reports whether s is one of the supported source configurations.
func ValidSource(s Source) bool {
	if s.Shards < 1 || s.Rows < 0 {
		return false
	}
	switch s.Kind {
	case SrcScanReader:
		return eqCols(s.Schema, cols(Str)) && s.Style >= 0 && s.Style <= 1
	case SrcConst:
		if s.Style != 0 {
			return false
		}
	case SrcReaderFunc:
		if s.Style < 0 || s.Style > 2 {
			return false
		}
	default:
		return false
	}
	return eqCols(s.Schema, cols(Int, Int)) || eqCols(s.Schema, cols(Str, Int)) || eqCols(s.Schema, cols(Int, Int, Int)) ||
		eqCols(s.Schema, cols(Int, PtCol))
}

// Apply returns the type of op applied to a slice of type t, and whether the
// application is well-typed AND has a documented meaning. src2 is consulted
// for Cogroup:second only.
func Apply(t Type, o Op, src2 *Source) (Type, bool) {
	n := len(t.Cols)
	if n == 0 {
		return t, false // the unit slice produced by Scan is terminal
	}
	last := t.Cols[n-1]
	same := t
	// Operators that construct a new slice type: the prefix of their output is
	// documented nowhere unless it is the default 1.
	derived := func(c []Col) (Type, bool) {
		if t.Prefix == 1 && t.PrefixKnown {
			return Type{Cols: c, Prefix: 1, PrefixKnown: true}, true
		}
		if len(c) < t.Prefix {
			return t, false
		}
		return Type{Cols: c, Prefix: t.Prefix, PrefixKnown: false}, true
	}
	switch o.Kind {
	case OpMap:
		switch o.Var {
		case MapAdd1:
			if last != Int {
				return t, false
			}
			return derived(t.Cols)
		case MapSwap:
			if n != 2 || !t.allScalar() {
				return t, false
			}
			return derived(cols(t.Cols[1], t.Cols[0]))
		case MapKeyMod3:
			if t.Cols[0] != Int {
				return t, false
			}
			return derived(t.Cols)
		case MapIntToStr:
			if last != Int {
				return t, false
			}
			c := append([]Col(nil), t.Cols...)
			c[n-1] = Str
			return derived(c)
		case MapTo3:
			if !eqCols(t.Cols, cols(Int, Int)) {
				return t, false
			}
			return derived(cols(Int, Int, Int))
		case MapParse:
			if !eqCols(t.Cols, cols(Str)) {
				return t, false
			}
			return derived(cols(Int, Int))
		case MapGroupSum:
			var c []Col
			for _, x := range t.Cols {
				if x.scalar() {
					c = append(c, x)
				}
			}
			if len(c) == n {
				return t, false
			}
			return derived(append(c, Int))
		}
		return t, false
	case OpFilter:
		return same, o.Var >= 0 && o.Var < numFilterVars
	case OpFlatmap:
		if o.Var < 0 || o.Var >= numFlatVars {
			return t, false
		}
		return derived(t.Cols)
	case OpFold:
		if n < 2 || !t.Cols[0].scalar() || t.Prefix != 1 || !t.PrefixKnown {
			return t, false
		}
		return Type{Cols: cols(t.Cols[0], Int), Prefix: 1, PrefixKnown: true}, true
	case OpHead:
		return same, o.N >= 0
	case OpReduce:
		if !t.PrefixKnown || n-t.Prefix != 1 || !t.allScalar() {
			return t, false
		}
		return same, true
	case OpCogroup:
		if !t.PrefixKnown || !t.atoms() || n < t.Prefix {
			return t, false
		}
		nin := 1
		var extra []Col
		switch o.Var {
		case CgSingle:
		case CgSelf:
			nin = 2
		case CgSecond:
			if src2 == nil || t.Prefix != 1 || !ValidSource(*src2) || src2.Kind != SrcConst ||
				len(src2.Schema) != 2 || src2.Schema[0] != t.Cols[0] {
				return t, false
			}
			extra = src2.Schema[1:]
		default:
			return t, false
		}
		c := append([]Col(nil), t.Cols[:t.Prefix]...)
		for i := 0; i < nin; i++ {
			for _, x := range t.Cols[t.Prefix:] {
				c = append(c, x.grouped())
			}
		}
		for _, x := range extra {
			c = append(c, x.grouped())
		}
		return Type{Cols: c, Prefix: t.Prefix, PrefixKnown: true}, true
	case OpReshuffle, OpReshard:
		if !t.keysScalar() {
			return t, false
		}
		if o.Kind == OpReshard && o.N < 1 {
			return t, false
		}
		return same, true
	case OpRepartition:
		return same, o.Var >= 0 && o.Var < numRpVars
	case OpPrefixReduce:
		if n != 3 || !t.allScalar() {
			return t, false
		}
		return Type{Cols: t.Cols, Prefix: 2, PrefixKnown: true}, true
	case OpScan:
		return Type{Prefix: 1, PrefixKnown: true}, true
	case OpWriterFunc, OpCache:
		return same, true
	}
	return t, false
}

// RootType is the type of the slice the chain operators are applied to.
func (p Program) RootType() (Type, bool) {
	if p.Shape == ShapeResult {
		return p.resultRootType()
	}
	if !ValidSource(p.Src) {
		return Type{}, false
	}
	ii := eqCols(p.Src.Schema, cols(Int, Int))
	switch p.Shape {
	case ShapeChain:
		return SourceType(p.Src), true
	case ShapeShared, ShapeSharedWriter:
		if !ii || p.N1 < 1 || p.N2 < 1 {
			return Type{}, false
		}
		return Type{Cols: cols(Int, Ints, Ints), Prefix: 1, PrefixKnown: true}, true
	case ShapeFanout:
		if !ii || p.N1 < 0 || p.N2 < 0 {
			return Type{}, false
		}
		return Type{Cols: cols(Int, Ints, Ints), Prefix: 1, PrefixKnown: true}, true
	case ShapeNested:
		if !ii || p.N1 < 1 || !ValidSource(p.Src2) || !eqCols(p.Src2.Schema, cols(Int, Int)) {
			return Type{}, false
		}
		return Type{Cols: cols(Int, Int), Prefix: 1, PrefixKnown: true}, true
	case ShapeCogroup3:
		if !ii || !ValidSource(p.Src2) || !eqCols(p.Src2.Schema, cols(Int, Int)) {
			return Type{}, false
		}
		return Type{Cols: cols(Int, Ints, Ints, Ints), Prefix: 1, PrefixKnown: true}, true
	}
	return Type{}, false
}

// Typecheck returns the result type, or false if the program is not one of
// the well-typed programs of the grammar.
func (p Program) Typecheck() (Type, bool) {
	t, ok := p.RootType()
	if !ok {
		return t, false
	}
	for _, o := range p.Ops {
		if t, ok = Apply(t, o, &p.Src2); !ok {
			return t, false
		}
	}
	return t, true
}
