// Package vfs is a small in-memory, fault-injecting implementation of
// github.com/grailbio/base/file.Implementation, registered under the scheme
// "vfs" (DESIGN.md §4 E3).
//
// Semantics (the ones bigslice relies on from the real implementations):
//
//   - data written to a Create'd file becomes visible atomically at Close; it is
//     never visible after Discard, after a failed Close, or if the "process dies"
//     (Crash) first; until then the previously committed content (if any) of the
//     path stays visible;
//   - Open / Stat / Remove of a path with no committed content fail with an error
//     of kind errors.NotExist;
//   - an opened file reads the content that was committed when it was opened
//     (like an open descriptor), whatever happens to the path afterwards;
//   - Reader(): all readers of one File share the seek pointer; Read returns as many
//     bytes as fit (no artificial short reads), then (0, io.EOF); Seek follows
//     io.Seeker, seeking past the end is allowed, a negative position is an error.
//
// Every call is logged with the stable label
//
//	<op>:<path>#<ordinal>
//
// where <path> is the path without "vfs://" (and without the volume name for a
// named volume, see New) and <ordinal> counts, from 0, the calls of that op on that
// path since the last Reset. Ops: Create Write Close Discard (files being written),
// Open FStat Read Seek CloseR (files being read; FStat is File.Stat), Stat Remove
// List Presign (Implementation level).
//
// A run can be told, before it starts, to FAIL a label (the call returns an
// *InjectedError and has no effect; FailPartial makes a Write first append the
// first half of its argument to the pending data and return that count) or to
// CRASH at a label (the call fails, every pending uncommitted file vanishes and
// every later call fails, until Restart).
//
// Interleavings: BeforeOp(k, f) runs f right before the k-th file operation (see
// there); together with the open-descriptor semantics above (an opened file keeps
// reading the content it was opened on after the path is replaced or removed, as
// with rename-over/unlink on a POSIX file system, which is what the local
// implementation does: Create writes a temporary file and renames it at Close,
// Remove unlinks) this lets a check enumerate reader/writer races exhaustively.
//
// Volumes: the package-level functions act on the default volume, which serves
// every vfs:// path that does not start with the name of a volume made by New.
// Named volumes are independent (own files, log, faults) so that independent cases
// can run in parallel. All of it is goroutine-safe.
package vfs

import (
	"context"
	"fmt"
	"io"
	"sort"
	"strings"
	"sync"
	"time"

	"github.com/grailbio/base/errors"
	"github.com/grailbio/base/file"
)

// Scheme is the registered URL scheme.
const Scheme = "vfs"

// Mode says what happens at a label given to FailAt.
type Mode int

const (
	// Fail: the call returns an error and has no effect. (Discard cannot report an
	// error: a failed Discard still never publishes anything.)
	Fail Mode = iota + 1
	// FailPartial: like Fail, but a Write first appends the first len/2 bytes.
	FailPartial
	// Crash: the call fails, pending files vanish, all later calls fail.
	Crash
)

func (m Mode) String() string {
	switch m {
	case Fail:
		return "fail"
	case FailPartial:
		return "failpartial"
	case Crash:
		return "crash"
	}
	return "none"
}

// InjectedError is returned by a call that was told to fail, and by every call
// after a crash.
type InjectedError struct {
	Label   string
	Crashed bool // the call came after (or was) the crash point
}

const injectedMark = "vfs: injected failure"

func (e *InjectedError) Error() string {
	if e.Crashed {
		return injectedMark + " (crashed) at " + e.Label
	}
	return injectedMark + " at " + e.Label
}

// IsInjected reports whether err is, or textually wraps, an injected failure.
func IsInjected(err error) bool {
	if err == nil {
		return false
	}
	if _, ok := err.(*InjectedError); ok {
		return true
	}
	return strings.Contains(err.Error(), injectedMark)
}

// FS is one volume.
type FS struct {
	name string

	mu      sync.Mutex
	files   map[string][]byte // committed content; slices are never modified
	mtime   map[string]time.Time
	pending map[*wfile]struct{}
	ord     map[string]int
	log     []string
	faults  map[string]Mode
	fired   []string
	failed  []string
	crashed bool
	clock   int64

	// interleaving hooks (BeforeOp)
	nops   int
	hooks  map[int]func()
	inHook bool
}

var (
	regMu    sync.RWMutex
	volumes  = map[string]*FS{}
	defaultV = newFS("")
)

func newFS(name string) *FS {
	fs := &FS{name: name}
	fs.reset()
	return fs
}

func init() {
	file.RegisterImplementation(Scheme, func() file.Implementation { return impl{} })
}

// New returns the named volume, creating it (empty) if needed. It serves the paths
// vfs://<name> and vfs://<name>/...; name must be non-empty and contain no '/'.
func New(name string) *FS {
	if name == "" || strings.Contains(name, "/") {
		panic("vfs.New: bad volume name " + name)
	}
	regMu.Lock()
	defer regMu.Unlock()
	if fs, ok := volumes[name]; ok {
		return fs
	}
	fs := newFS(name)
	volumes[name] = fs
	return fs
}

// Default returns the default volume.
func Default() *FS { return defaultV }

// Package-level functions act on the default volume.

// Reset makes the file system empty and clears log, ordinals and faults.
func Reset() { defaultV.Reset() }

// Log returns the labels of all calls since Reset, in order.
func Log() []string { return defaultV.Log() }

// FailAt arranges for the call with the given label to fail in the given mode.
func FailAt(label string, mode Mode) { defaultV.FailAt(label, mode) }

// Files returns a copy of the committed files (label-form path -> content).
func Files() map[string][]byte { return defaultV.Files() }

// Put commits content at path (full vfs:// path or label-form path) without logging.
func Put(path string, b []byte) { defaultV.Put(path, b) }

// Prefix is the URL of the root of the volume: "vfs://" or "vfs://<name>/".
func (fs *FS) Prefix() string {
	if fs.name == "" {
		return Scheme + "://"
	}
	return Scheme + "://" + fs.name + "/"
}

func (fs *FS) reset() {
	fs.files = map[string][]byte{}
	fs.mtime = map[string]time.Time{}
	fs.pending = map[*wfile]struct{}{}
	fs.ord = map[string]int{}
	fs.log = nil
	fs.faults = map[string]Mode{}
	fs.fired = nil
	fs.failed = nil
	fs.crashed = false
	fs.clock = 0
	fs.nops = 0
	fs.hooks = map[int]func(){}
	fs.inHook = false
}

// Reset makes the volume empty and clears log, ordinals, faults and crash state.
// Files still held open by callers become dead (their calls fail).
func (fs *FS) Reset() {
	fs.mu.Lock()
	defer fs.mu.Unlock()
	for w := range fs.pending {
		w.state = wDead
	}
	fs.reset()
}

// Restart models a new process on the same storage: committed files stay, pending
// files are gone, the crash state and all faults are cleared. Log and ordinals
// continue.
func (fs *FS) Restart() {
	fs.mu.Lock()
	defer fs.mu.Unlock()
	fs.dropPending()
	fs.crashed = false
	fs.faults = map[string]Mode{}
}

// Log returns the labels of all calls since Reset, in order.
func (fs *FS) Log() []string {
	fs.mu.Lock()
	defer fs.mu.Unlock()
	return append([]string(nil), fs.log...)
}

// Fired returns the labels at which an injected fault actually happened.
func (fs *FS) Fired() []string {
	fs.mu.Lock()
	defer fs.mu.Unlock()
	return append([]string(nil), fs.fired...)
}

// Failures returns the labels of all calls that returned an injected error: the
// armed labels that fired and every call made after a crash.
func (fs *FS) Failures() []string {
	fs.mu.Lock()
	defer fs.mu.Unlock()
	return append([]string(nil), fs.failed...)
}

// Ops returns the number of file operations (calls of the ops listed in the package
// comment) made since Reset, not counting operations made from inside a BeforeOp
// function. The next operation has number Ops().
func (fs *FS) Ops() int {
	fs.mu.Lock()
	defer fs.mu.Unlock()
	return fs.nops
}

// BeforeOp arranges for f to run, once, immediately before file operation number k
// (numbering as in Ops) starts: synchronously on the goroutine making that call,
// with no vfs lock held, so f may itself use the file system. Operations made by f
// are logged and labelled as usual but are not numbered and trigger no hooks. This
// enumerates the interleavings of a second actor (f, atomic) with the operations
// of the first at file-operation granularity: run the first actor once per k.
// Intended for one driving goroutine per volume. Reset clears all hooks.
func (fs *FS) BeforeOp(k int, f func()) {
	fs.mu.Lock()
	defer fs.mu.Unlock()
	fs.hooks[k] = f
}

// hookPoint is called at the start of every file operation, before the lock.
func (fs *FS) hookPoint() {
	fs.mu.Lock()
	if fs.inHook {
		fs.mu.Unlock()
		return
	}
	k := fs.nops
	fs.nops++
	f := fs.hooks[k]
	if f == nil {
		fs.mu.Unlock()
		return
	}
	delete(fs.hooks, k)
	fs.inHook = true
	fs.mu.Unlock()
	defer func() {
		fs.mu.Lock()
		fs.inHook = false
		fs.mu.Unlock()
	}()
	f()
}

// Crashed reports whether a Crash fault has happened (and no Restart since).
func (fs *FS) Crashed() bool {
	fs.mu.Lock()
	defer fs.mu.Unlock()
	return fs.crashed
}

// FailAt arranges for the call with the given label to fail in the given mode.
// Several labels may be armed at once.
func (fs *FS) FailAt(label string, mode Mode) {
	fs.mu.Lock()
	defer fs.mu.Unlock()
	fs.faults[label] = mode
}

// ClearFaults disarms all labels (the crash state is kept).
func (fs *FS) ClearFaults() {
	fs.mu.Lock()
	defer fs.mu.Unlock()
	fs.faults = map[string]Mode{}
}

// Files returns a copy of the committed files, keyed by label-form path.
func (fs *FS) Files() map[string][]byte {
	fs.mu.Lock()
	defer fs.mu.Unlock()
	m := make(map[string][]byte, len(fs.files))
	for k, v := range fs.files {
		m[k] = append([]byte{}, v...)
	}
	return m
}

// Put commits content at path (full vfs:// path or label-form path), unlogged.
func (fs *FS) Put(path string, b []byte) {
	fs.mu.Lock()
	defer fs.mu.Unlock()
	p := fs.rel(path)
	fs.files[p] = append([]byte{}, b...)
	fs.mtime[p] = fs.now()
}

// Delete removes the committed file at path, unlogged; reports whether it existed.
func (fs *FS) Delete(path string) bool {
	fs.mu.Lock()
	defer fs.mu.Unlock()
	p := fs.rel(path)
	_, ok := fs.files[p]
	delete(fs.files, p)
	delete(fs.mtime, p)
	return ok
}

// rel turns a full path into label form.
func (fs *FS) rel(path string) string {
	p := strings.TrimPrefix(path, Scheme+"://")
	if fs.name != "" {
		if p == fs.name {
			return ""
		}
		p = strings.TrimPrefix(p, fs.name+"/")
	}
	return p
}

func (fs *FS) now() time.Time {
	fs.clock++
	return time.Unix(1_000_000_000+fs.clock, 0)
}

func (fs *FS) dropPending() {
	for w := range fs.pending {
		w.state = wDead
		w.buf = nil
	}
	fs.pending = map[*wfile]struct{}{}
}

// enter logs one call and decides its fate. Must be called with fs.mu held.
// It returns the label, the fault mode that applies (0 = none) and, if the call must
// fail, the error to return.
func (fs *FS) enter(op, p string) (string, Mode, error) {
	key := op + ":" + p
	n := fs.ord[key]
	fs.ord[key] = n + 1
	label := fmt.Sprintf("%s#%d", key, n)
	fs.log = append(fs.log, label)
	if fs.crashed {
		fs.failed = append(fs.failed, label)
		return label, Crash, &InjectedError{Label: label, Crashed: true}
	}
	mode, ok := fs.faults[label]
	if !ok {
		return label, 0, nil
	}
	fs.fired = append(fs.fired, label)
	fs.failed = append(fs.failed, label)
	if mode == Crash {
		fs.crashed = true
		fs.dropPending()
		return label, Crash, &InjectedError{Label: label, Crashed: true}
	}
	return label, mode, &InjectedError{Label: label}
}

func notExist(op, path string) error {
	return errors.E(errors.NotExist, fmt.Sprintf("vfs: %s %s: no such file", op, path))
}

// ---- file.Implementation ----------------------------------------------------

type impl struct{}

func volumeOf(path string) *FS {
	p := strings.TrimPrefix(path, Scheme+"://")
	name := p
	if i := strings.IndexByte(p, '/'); i >= 0 {
		name = p[:i]
	}
	regMu.RLock()
	fs := volumes[name]
	regMu.RUnlock()
	if fs == nil {
		return defaultV
	}
	return fs
}

func (impl) String() string { return Scheme }

func (impl) Create(ctx context.Context, path string, _ ...file.Opts) (file.File, error) {
	fs := volumeOf(path)
	fs.hookPoint()
	fs.mu.Lock()
	defer fs.mu.Unlock()
	p := fs.rel(path)
	if _, _, err := fs.enter("Create", p); err != nil {
		return nil, err
	}
	if p == "" || strings.HasSuffix(p, "/") {
		return nil, errors.E(errors.Invalid, "vfs: create "+path+": not a file name")
	}
	w := &wfile{fs: fs, path: path, p: p}
	fs.pending[w] = struct{}{}
	return w, nil
}

func (impl) Open(ctx context.Context, path string, _ ...file.Opts) (file.File, error) {
	fs := volumeOf(path)
	fs.hookPoint()
	fs.mu.Lock()
	defer fs.mu.Unlock()
	p := fs.rel(path)
	if _, _, err := fs.enter("Open", p); err != nil {
		return nil, err
	}
	b, ok := fs.files[p]
	if !ok {
		return nil, notExist("open", path)
	}
	return &rfile{fs: fs, path: path, p: p, data: b, mtime: fs.mtime[p]}, nil
}

func (impl) Stat(ctx context.Context, path string, _ ...file.Opts) (file.Info, error) {
	fs := volumeOf(path)
	fs.hookPoint()
	fs.mu.Lock()
	defer fs.mu.Unlock()
	p := fs.rel(path)
	if _, _, err := fs.enter("Stat", p); err != nil {
		return nil, err
	}
	b, ok := fs.files[p]
	if !ok {
		return nil, notExist("stat", path)
	}
	return info{size: int64(len(b)), mtime: fs.mtime[p]}, nil
}

func (impl) Remove(ctx context.Context, path string) error {
	fs := volumeOf(path)
	fs.hookPoint()
	fs.mu.Lock()
	defer fs.mu.Unlock()
	p := fs.rel(path)
	if _, _, err := fs.enter("Remove", p); err != nil {
		return err
	}
	if _, ok := fs.files[p]; !ok {
		return notExist("remove", path)
	}
	delete(fs.files, p)
	delete(fs.mtime, p)
	return nil
}

func (impl) Presign(ctx context.Context, path, method string, expiry time.Duration) (string, error) {
	fs := volumeOf(path)
	fs.hookPoint()
	fs.mu.Lock()
	defer fs.mu.Unlock()
	if _, _, err := fs.enter("Presign", fs.rel(path)); err != nil {
		return "", err
	}
	return "", errors.E(errors.NotSupported, "vfs: presign "+path)
}

// List lists committed files. With recursive=false it yields the files and the
// (implied) directories one level below path; with recursive=true all files below
// it. If path names a file, that file alone is listed.
func (impl) List(ctx context.Context, path string, recursive bool) file.Lister {
	fs := volumeOf(path)
	fs.hookPoint()
	fs.mu.Lock()
	defer fs.mu.Unlock()
	p := fs.rel(path)
	if _, _, err := fs.enter("List", p); err != nil {
		return &lister{err: err}
	}
	full := func(rel string) string { return fs.Prefix() + rel }
	l := &lister{}
	if b, ok := fs.files[p]; ok {
		l.ents = []entry{{path: path, info: info{size: int64(len(b)), mtime: fs.mtime[p]}}}
		return l
	}
	dir := strings.TrimRight(p, "/")
	if dir != "" {
		dir += "/"
	}
	seenDir := map[string]bool{}
	for k, b := range fs.files {
		if !strings.HasPrefix(k, dir) {
			continue
		}
		rest := k[len(dir):]
		if i := strings.IndexByte(rest, '/'); i >= 0 && !recursive {
			d := dir + rest[:i]
			if !seenDir[d] {
				seenDir[d] = true
				l.ents = append(l.ents, entry{path: full(d), dir: true})
			}
			continue
		}
		l.ents = append(l.ents, entry{path: full(k), info: info{size: int64(len(b)), mtime: fs.mtime[k]}})
	}
	sort.Slice(l.ents, func(i, j int) bool { return l.ents[i].path < l.ents[j].path })
	return l
}

type info struct {
	size  int64
	mtime time.Time
}

func (i info) Size() int64        { return i.size }
func (i info) ModTime() time.Time { return i.mtime }

type entry struct {
	path string
	dir  bool
	info info
}

type lister struct {
	ents []entry
	cur  int
	err  error
}

func (l *lister) Scan() bool {
	if l.err != nil || l.cur >= len(l.ents) {
		return false
	}
	l.cur++
	return true
}
func (l *lister) Err() error   { return l.err }
func (l *lister) Path() string { return l.ents[l.cur-1].path }
func (l *lister) IsDir() bool  { return l.ents[l.cur-1].dir }
func (l *lister) Info() file.Info {
	if l.ents[l.cur-1].dir {
		return nil
	}
	return l.ents[l.cur-1].info
}

// ---- files being written ----------------------------------------------------

type wstate int

const (
	wOpen wstate = iota
	wClosed
	wDiscarded
	wDead // crashed, restarted or reset under it
)

type wfile struct {
	fs    *FS
	path  string
	p     string
	buf   []byte
	state wstate
}

func (w *wfile) String() string { return w.path }
func (w *wfile) Name() string   { return w.path }

func (w *wfile) usable(op string) error {
	switch w.state {
	case wOpen:
		return nil
	case wDead:
		return fmt.Errorf("vfs: %s %s: file lost (crash/restart/reset)", op, w.path)
	}
	return fmt.Errorf("vfs: %s %s: file already closed or discarded", op, w.path)
}

func (w *wfile) Stat(ctx context.Context) (file.Info, error) {
	w.fs.hookPoint()
	w.fs.mu.Lock()
	defer w.fs.mu.Unlock()
	if _, _, err := w.fs.enter("FStat", w.p); err != nil {
		return nil, err
	}
	if err := w.usable("stat"); err != nil {
		return nil, err
	}
	return info{size: int64(len(w.buf)), mtime: w.fs.now()}, nil
}

func (w *wfile) Reader(context.Context) io.ReadSeeker {
	return file.NewError(fmt.Errorf("vfs: reader %s: file is not opened for reading", w.path))
}

func (w *wfile) Writer(context.Context) io.Writer { return wwriter{w} }

type wwriter struct{ w *wfile }

func (ww wwriter) Write(b []byte) (int, error) {
	w := ww.w
	w.fs.hookPoint()
	w.fs.mu.Lock()
	defer w.fs.mu.Unlock()
	_, mode, err := w.fs.enter("Write", w.p)
	if err != nil {
		n := 0
		if mode == FailPartial && w.state == wOpen {
			n = len(b) / 2
			w.buf = append(w.buf, b[:n]...)
		}
		return n, err
	}
	if err := w.usable("write"); err != nil {
		return 0, err
	}
	w.buf = append(w.buf, b...)
	return len(b), nil
}

func (w *wfile) Close(ctx context.Context) error {
	w.fs.hookPoint()
	w.fs.mu.Lock()
	defer w.fs.mu.Unlock()
	_, _, err := w.fs.enter("Close", w.p)
	if err != nil {
		if w.state == wOpen {
			// like the local implementation: the temporary data are dropped.
			w.state = wClosed
			w.buf = nil
			delete(w.fs.pending, w)
		}
		return err
	}
	if err := w.usable("close"); err != nil {
		return err
	}
	w.state = wClosed
	delete(w.fs.pending, w)
	w.fs.files[w.p] = append([]byte{}, w.buf...)
	w.fs.mtime[w.p] = w.fs.now()
	w.buf = nil
	return nil
}

func (w *wfile) Discard(ctx context.Context) {
	w.fs.hookPoint()
	w.fs.mu.Lock()
	defer w.fs.mu.Unlock()
	w.fs.enter("Discard", w.p)
	if w.state == wOpen {
		w.state = wDiscarded
		w.buf = nil
		delete(w.fs.pending, w)
	}
}

// ---- files being read ---------------------------------------------------------

type rfile struct {
	fs     *FS
	path   string
	p      string
	data   []byte
	mtime  time.Time
	pos    int64
	closed bool
}

func (r *rfile) String() string { return r.path }
func (r *rfile) Name() string   { return r.path }

func (r *rfile) Stat(ctx context.Context) (file.Info, error) {
	r.fs.hookPoint()
	r.fs.mu.Lock()
	defer r.fs.mu.Unlock()
	if _, _, err := r.fs.enter("FStat", r.p); err != nil {
		return nil, err
	}
	if r.closed {
		return nil, fmt.Errorf("vfs: stat %s: file already closed", r.path)
	}
	return info{size: int64(len(r.data)), mtime: r.mtime}, nil
}

func (r *rfile) Reader(context.Context) io.ReadSeeker { return rreader{r} }

func (r *rfile) Writer(context.Context) io.Writer {
	return file.NewError(fmt.Errorf("vfs: writer %s: file is not opened for writing", r.path))
}

func (r *rfile) Discard(ctx context.Context) {}

func (r *rfile) Close(ctx context.Context) error {
	r.fs.hookPoint()
	r.fs.mu.Lock()
	defer r.fs.mu.Unlock()
	_, _, err := r.fs.enter("CloseR", r.p)
	if err != nil {
		r.closed = true
		return err
	}
	if r.closed {
		return fmt.Errorf("vfs: close %s: file already closed", r.path)
	}
	r.closed = true
	return nil
}

type rreader struct{ r *rfile }

func (rr rreader) Read(b []byte) (int, error) {
	r := rr.r
	r.fs.hookPoint()
	r.fs.mu.Lock()
	defer r.fs.mu.Unlock()
	if _, _, err := r.fs.enter("Read", r.p); err != nil {
		return 0, err
	}
	if r.closed {
		return 0, fmt.Errorf("vfs: read %s: file already closed", r.path)
	}
	if r.pos >= int64(len(r.data)) {
		if len(b) == 0 {
			return 0, nil
		}
		return 0, io.EOF
	}
	n := copy(b, r.data[r.pos:])
	r.pos += int64(n)
	return n, nil
}

func (rr rreader) Seek(off int64, whence int) (int64, error) {
	r := rr.r
	r.fs.hookPoint()
	r.fs.mu.Lock()
	defer r.fs.mu.Unlock()
	if _, _, err := r.fs.enter("Seek", r.p); err != nil {
		return 0, err
	}
	if r.closed {
		return 0, fmt.Errorf("vfs: seek %s: file already closed", r.path)
	}
	var base int64
	switch whence {
	case io.SeekStart:
	case io.SeekCurrent:
		base = r.pos
	case io.SeekEnd:
		base = int64(len(r.data))
	default:
		return 0, fmt.Errorf("vfs: seek %s: bad whence %d", r.path, whence)
	}
	if base+off < 0 {
		return 0, fmt.Errorf("vfs: seek %s: negative position", r.path)
	}
	r.pos = base + off
	return r.pos, nil
}
