// Package vsys is "verifsystem" (DESIGN.md §4 E4): an in-process
// bigmachine.System without sockets whose http.RoundTripper calls the target
// machine's RPC server inline. Every RPC (driver→worker and worker→worker)
// therefore passes through RoundTrip, where it is labelled, recorded, and where
// faults (machine kills, transport errors, truncated streams) are injected.
package vsys

import (
	"bytes"
	"context"
	"encoding/gob"
	"fmt"
	"io"
	"net/http"
	"net/http/httptest"
	"regexp"
	"strings"
	"sync"
	"sync/atomic"
	"time"

	"github.com/grailbio/base/errors"
	"github.com/grailbio/base/log"
	"github.com/grailbio/bigmachine"
	"github.com/grailbio/bigmachine/rpc"
	"github.com/grailbio/bigslice/exec"
)

func init() { gob.Register(new(System)) }

type mach struct {
	m      *bigmachine.Machine
	cancel func()
	mux    *http.ServeMux
	dead   int32
}

// Fault kills the callee of the RPC with the given label.
//
// Variant: "before" (request never arrives), "after" (handler ran, reply lost),
// "afterreply" (reply delivered, machine dies concurrently), "replylate" (machine dies
// after the handler ran; the reply is delivered only once the driver has seen the
// machine stop), "mid:<k>" (reply
// body cut after k bytes, machine dead; meaningful for Worker.Read),
// "neterr" (a transport error for this one call, machine stays alive).
type Fault struct {
	Label   string // method:key#occurrence
	Variant string
	// Victim, if non-empty, names the host to kill instead of the callee.
	Victim string
}

// Call describes one intercepted RPC.
type Call struct {
	Method string
	Label  string // normalised label with occurrence, e.g. Worker.Run:inv_reduce@3:1#1
	Host   string
	Body   []byte
}

// System implements bigmachine.System.
type System struct {
	Procs int
	// Hook, if set, is called before the handler runs; a non-nil error is
	// returned to the caller as a transport error (the handler does not run).
	Hook func(c *Call) error
	// After, if set, is called after the handler ran with the response status and body.
	After func(c *Call, status int, body []byte)
	// AllMethods also records Supervisor.* and Worker.Stats etc. in History.
	AllMethods bool
	// MaxMachines caps the total number of machines ever started (0 = unlimited).
	MaxMachines int
	// Keepalive overrides (period, timeout, rpcTimeout); zero = 20/60/30 ms. A killed
	// machine refuses connections at once, so loss is noticed within one period
	// whatever the timeouts are; generous timeouts avoid spurious losses under CPU load.
	Keepalive [3]time.Duration

	b     *bigmachine.B
	mu    sync.Mutex
	machs map[string]*mach
	n     int

	occ     map[string]int
	history []string
	faults  []Fault
	fired   []bool
	killed  []string
	nrpc    map[string]int
}

// New returns a system whose machines have the given number of procs.
func New(procs int, faults ...Fault) *System {
	return &System{Procs: procs, machs: map[string]*mach{}, occ: map[string]int{}, nrpc: map[string]int{},
		faults: faults, fired: make([]bool, len(faults))}
}

func (s *System) Name() string                              { return "verifsystem" }
func (s *System) Init(b *bigmachine.B) error                { s.b = b; return nil }
func (s *System) Main() error                               { panic("Main") }
func (s *System) Event(string, ...interface{})              {}
func (s *System) ListenAndServe(string, http.Handler) error { panic("ListenAndServe") }
func (s *System) Exit(int)                                  {}
func (s *System) Shutdown()                                 {}
func (s *System) Maxprocs() int                             { return s.Procs }
func (s *System) KeepaliveConfig() (time.Duration, time.Duration, time.Duration) {
	if s.Keepalive != [3]time.Duration{} {
		return s.Keepalive[0], s.Keepalive[1], s.Keepalive[2]
	}
	return 20 * time.Millisecond, 60 * time.Millisecond, 30 * time.Millisecond
}
func (s *System) Tail(context.Context, *bigmachine.Machine) (io.Reader, error) {
	return nil, errors.E(errors.NotSupported)
}
func (s *System) Read(context.Context, *bigmachine.Machine, string) (io.Reader, error) {
	return nil, errors.E(errors.NotSupported)
}
func (s *System) HTTPClient() *http.Client { return &http.Client{Transport: s} }

func (s *System) Start(_ context.Context, count int) ([]*bigmachine.Machine, error) {
	s.mu.Lock()
	defer s.mu.Unlock()
	if s.MaxMachines > 0 && s.n+count > s.MaxMachines {
		count = s.MaxMachines - s.n
		if count <= 0 {
			return nil, errors.E(errors.Unavailable, "verifsystem: machine quota exhausted")
		}
	}
	out := make([]*bigmachine.Machine, count)
	for i := range out {
		ctx, cancel := context.WithCancel(context.Background())
		server := rpc.NewServer()
		server.Register("Supervisor", bigmachine.StartSupervisor(ctx, s.b, s, server))
		mux := http.NewServeMux()
		mux.Handle(bigmachine.RpcPrefix, server)
		host := fmt.Sprintf("m%d.verif", s.n)
		s.n++
		m := &bigmachine.Machine{Addr: "http://" + host, Maxprocs: s.Procs, NoExec: true}
		s.machs[host] = &mach{m: m, cancel: cancel, mux: mux}
		out[i] = m
	}
	return out, nil
}

// Kill stops the named host ("m0.verif"): RPCs to it fail from now on and its
// supervisor context is cancelled.
func (s *System) Kill(host string) {
	s.mu.Lock()
	m := s.machs[host]
	if m != nil {
		s.killed = append(s.killed, host)
	}
	s.mu.Unlock()
	if m == nil {
		return
	}
	atomic.StoreInt32(&m.dead, 1)
	m.cancel()
}

// Stop releases everything the system keeps running in the background: every
// supervisor context is cancelled and the driver-side machines (their keepalive
// loops) are cancelled. For harnesses that create
// one system per explored execution; the system must not be used afterwards.
func (s *System) Stop() {
	s.mu.Lock()
	var ms []*mach
	for _, m := range s.machs {
		ms = append(ms, m)
	}
	b := s.b
	s.mu.Unlock()
	for _, m := range ms {
		atomic.StoreInt32(&m.dead, 1)
		m.cancel()
	}
	if b != nil {
		for _, m := range b.Machines() {
			m.Cancel()
		}
	}
}

// Hosts returns the names of all machines ever started, alive or not.
func (s *System) Hosts() []string {
	s.mu.Lock()
	defer s.mu.Unlock()
	var out []string
	for i := 0; i < s.n; i++ {
		out = append(out, fmt.Sprintf("m%d.verif", i))
	}
	return out
}

// Alive reports whether host has not been killed.
func (s *System) Alive(host string) bool {
	s.mu.Lock()
	m := s.machs[host]
	s.mu.Unlock()
	return m != nil && atomic.LoadInt32(&m.dead) == 0
}

// History returns the labels of the Worker RPCs seen so far, in order.
func (s *System) History() []string {
	s.mu.Lock()
	defer s.mu.Unlock()
	return append([]string{}, s.history...)
}

// Killed returns the hosts killed so far.
func (s *System) Killed() []string {
	s.mu.Lock()
	defer s.mu.Unlock()
	return append([]string{}, s.killed...)
}

// Fired reports for each configured fault whether it fired.
func (s *System) Fired() []bool {
	s.mu.Lock()
	defer s.mu.Unlock()
	return append([]bool{}, s.fired...)
}

// Count returns the number of RPCs seen for a method (e.g. "Worker.Run").
func (s *System) Count(method string) int {
	s.mu.Lock()
	defer s.mu.Unlock()
	return s.nrpc[method]
}

type nameReq struct{ Name exec.TaskName }
type tpReq struct {
	Name      exec.TaskName
	Partition int
}

var invRe = regexp.MustCompile(`inv[0-9]+`)

// NormLabel removes the process-global invocation index from a label.
func NormLabel(s string) string { return invRe.ReplaceAllString(s, "inv") }

func label0(method string, body []byte) string {
	switch method {
	case "Worker.Run":
		var r nameReq
		if gob.NewDecoder(bytes.NewReader(body)).Decode(&r) == nil {
			return method + ":" + r.Name.String()
		}
	case "Worker.Read", "Worker.Stat":
		var r tpReq
		if gob.NewDecoder(bytes.NewReader(body)).Decode(&r) == nil {
			return fmt.Sprintf("%s:%s/p%d", method, r.Name, r.Partition)
		}
	case "Worker.CommitCombiner", "Worker.Discard":
		var n exec.TaskName
		if gob.NewDecoder(bytes.NewReader(body)).Decode(&n) == nil {
			return method + ":" + n.String()
		}
	}
	return method
}

type cutBody struct {
	r    io.Reader
	left int
}

func (c *cutBody) Read(p []byte) (int, error) {
	if c.left <= 0 {
		return 0, fmt.Errorf("read: connection reset mid-stream (verifsystem)")
	}
	if len(p) > c.left {
		p = p[:c.left]
	}
	n, err := c.r.Read(p)
	c.left -= n
	if err == io.EOF {
		// the stream was shorter than the cut point: the cut is a no-op
		return n, err
	}
	return n, err
}
func (c *cutBody) Close() error { return nil }

// RoundTrip implements http.RoundTripper.
func (s *System) RoundTrip(req *http.Request) (*http.Response, error) {
	host := req.URL.Host
	method := strings.TrimPrefix(req.URL.Path, bigmachine.RpcPrefix)
	var body []byte
	if req.Body != nil {
		body, _ = io.ReadAll(req.Body)
		req.Body.Close()
	}
	s.mu.Lock()
	m := s.machs[host]
	var lab string
	fault := -1
	s.nrpc[method]++
	labelled := strings.HasPrefix(method, "Worker.") && method != "Worker.Stats" && method != "Worker.TaskStats" && method != "Worker.FuncLocations"
	if labelled || s.AllMethods {
		l := NormLabel(label0(method, body))
		s.occ[l]++
		lab = fmt.Sprintf("%s#%d", l, s.occ[l])
		s.history = append(s.history, lab)
		for i, f := range s.faults {
			if !s.fired[i] && f.Label == lab {
				s.fired[i] = true
				fault = i
				break
			}
		}
	}
	hook, after := s.Hook, s.After
	s.mu.Unlock()
	call := &Call{Method: method, Label: lab, Host: host, Body: body}
	victim := host
	variant := ""
	if fault >= 0 {
		variant = s.faults[fault].Variant
		if v := s.faults[fault].Victim; v != "" {
			victim = v
		}
	}
	if variant == "before" {
		s.Kill(victim)
	}
	if variant == "neterr" {
		return nil, fmt.Errorf("dial %s: injected transport error (verifsystem)", host)
	}
	if hook != nil {
		if err := hook(call); err != nil {
			return nil, err
		}
	}
	if m == nil || atomic.LoadInt32(&m.dead) == 1 {
		return nil, fmt.Errorf("dial %s: connection refused (verifsystem)", host)
	}
	r2 := req.Clone(req.Context())
	r2.Body = io.NopCloser(bytes.NewReader(body))
	r2.RequestURI = req.URL.RequestURI()
	rec := httptest.NewRecorder()
	m.mux.ServeHTTP(rec, r2)
	if after != nil {
		after(call, rec.Code, rec.Body.Bytes())
	}
	if variant == "after" {
		s.Kill(victim)
	}
	if variant == "replylate" {
		// The handler ran and its reply WILL be delivered, but only after the machine has
		// died and the driver has noticed (bigmachine state Stopped, plus a moment for
		// bigslice's per-machine loop to mark the machine and its tasks lost): the window
		// between a call's completion and the driver recording it.
		s.Kill(victim)
		s.mu.Lock()
		vm := s.machs[victim]
		s.mu.Unlock()
		deadline := time.Now().Add(30 * time.Second)
		for vm != nil && vm.m.State() != bigmachine.Stopped && time.Now().Before(deadline) {
			time.Sleep(time.Millisecond)
		}
		time.Sleep(50 * time.Millisecond)
		resp := rec.Result()
		resp.Request = req
		return resp, nil
	}
	if atomic.LoadInt32(&m.dead) == 1 && !strings.HasPrefix(variant, "mid:") {
		return nil, fmt.Errorf("read %s: connection reset (verifsystem)", host)
	}
	resp := rec.Result()
	resp.Request = req
	if strings.HasPrefix(variant, "mid:") {
		var k int
		fmt.Sscanf(variant, "mid:%d", &k)
		s.Kill(victim)
		resp.Body = &cutBody{r: resp.Body, left: k}
		resp.ContentLength = -1
	}
	if variant == "afterreply" {
		go s.Kill(victim)
	}
	return resp, nil
}

type nopOut struct{}

func (nopOut) Level() log.Level                                    { return log.Off }
func (nopOut) Output(calldepth int, level log.Level, s string) error { return nil }

// Quiet silences grailbio/base/log.
func Quiet() { log.SetOutputter(nopOut{}) }

// FastRetries shrinks the retry back-offs of exec and bigmachine (same retry counts).
func FastRetries() {
	exec.VerifFastRetries()
	bigmachine.VerifFastRetries()
}
