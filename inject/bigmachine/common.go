package bigmachine

import (
	"time"

	"github.com/grailbio/base/retry"
)

func VerifFastRetries() { retryPolicy = retry.Backoff(time.Millisecond, 5*time.Millisecond, 1.5) }
