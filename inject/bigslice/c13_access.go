package bigslice

import (
	"github.com/grailbio/bigslice/internal/slicecache"
	"github.com/grailbio/bigslice/sliceio"
)

// internal/slicecache cannot be imported from the harness module; these forward to
// the accessors injected there (inject/slicecache/c13_access.go).

// VerifC13FileReader is the reader a cached shard is read with.
func VerifC13FileReader(path string) sliceio.Reader { return slicecache.VerifC13FileReader(path) }

// VerifC13Path is the name of the file of a shard.
func VerifC13Path(prefix string, shard, numShards int) string {
	return slicecache.VerifC13Path(prefix, shard, numShards)
}
