package bigslice

import (
	"context"

	"github.com/grailbio/bigslice/internal/slicecache"
	"github.com/grailbio/bigslice/sliceio"
)

// internal/slicecache cannot be imported from the harness module; these forward to
// the accessors injected there (inject/slicecache/c13_access.go).

// VerifC13FileReader is the reader a cached shard is read with.
func VerifC13FileReader(path string) sliceio.Reader { return slicecache.VerifC13FileReader(path) }

// VerifC13Path is the name of the file of a shard.
func VerifC13Path(prefix string, shard, numShards int) string {
	return slicecache.VerifC13Path(prefix, shard, numShards)
}

// VerifC13CachedShards exposes, for a slice made by Cache, CachePartial or ReadCache,
// which shards its FileShardCache considers cached (nil for any other slice).
func VerifC13CachedShards(s Slice) []bool {
	var c *slicecache.FileShardCache
	switch v := s.(type) {
	case *cacheSlice:
		c = v.cache
	case *readCacheSlice:
		c = v.cache
	default:
		return nil
	}
	out := make([]bool, s.NumShard())
	for i := range out {
		out[i] = c.IsCached(i)
	}
	return out
}

// VerifC13Probe: see slicecache.VerifC13Probe.
func VerifC13Probe(ctx context.Context, prefix string, numShards int, requireAll bool) []bool {
	return slicecache.VerifC13Probe(ctx, prefix, numShards, requireAll)
}
