package bigslice

// VerifC17SetChunk sets the package's copy of the default vector size (the
// input vector of the fold reader) and returns the previous value.
func VerifC17SetChunk(n int) int { old := defaultChunksize; defaultChunksize = n; return old }
