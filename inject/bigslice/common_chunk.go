package bigslice

// VerifCommonSetChunk sets the root package's copy (taken at init) of
// internal/defaultsize.Chunk -- the vector size of foldReader -- and returns the old value.
func VerifCommonSetChunk(n int) int {
	old := defaultChunksize
	defaultChunksize = n
	return old
}
