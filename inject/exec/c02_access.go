package exec

import (
	"time"

	"github.com/grailbio/base/retry"
	"github.com/grailbio/bigmachine"
)

// VerifC02SetRetryPolicy sets the back-off of retryReader (production: 5 s
// doubling up to 60 s, 5 retries).
func VerifC02SetRetryPolicy(initial, max time.Duration, factor float64, retries int) {
	retryPolicy = retry.MaxRetries(retry.Backoff(initial, max, factor), retries)
}

// VerifC02StoppedMachines returns the addresses of the machines of a
// bigmachine session that the driver considers stopped.
func VerifC02StoppedMachines(s *Session) []string {
	b, ok := s.executor.(*bigmachineExecutor)
	if !ok || b.b == nil {
		return nil
	}
	var out []string
	for _, m := range b.b.Machines() {
		if m.State() == bigmachine.Stopped {
			out = append(out, m.Addr)
		}
	}
	return out
}
