package exec

// Accessors for the C03 harness (evaluator safety/progress). They only expose
// or set state; no evaluator logic is re-implemented here.

// VerifC03State reads a task's state without taking its lock (the harness runs
// under a cooperative scheduler, so the read is atomic with respect to other threads).
func VerifC03State(t *Task) TaskState { return t.state }

// VerifC03Init puts a task into an initial state, as left behind by an earlier invocation.
func VerifC03Init(t *Task, s TaskState, err error) {
	t.state = s
	t.err = err
}

// VerifC03ConsecutiveLost exposes the runner's loss counter.
func VerifC03ConsecutiveLost(t *Task) int { return t.consecutiveLost }

// VerifC03MaxConsecutiveLost is the evaluator's give-up threshold.
const VerifC03MaxConsecutiveLost = maxConsecutiveLost

// VerifC03EvalState wraps the evaluator's unexported scheduling core.
type VerifC03EvalState struct{ s *state }

func VerifC03NewState() *VerifC03EvalState            { return &VerifC03EvalState{newState()} }
func (v *VerifC03EvalState) Enqueue(t *Task) int     { return v.s.Enqueue(t) }
func (v *VerifC03EvalState) Return(t *Task)          { v.s.Return(t) }
func (v *VerifC03EvalState) Runnable() []*Task       { return v.s.Runnable() }
func (v *VerifC03EvalState) Todo() bool              { return v.s.Todo() }
func (v *VerifC03EvalState) Done() bool              { return v.s.Done() }
func (v *VerifC03EvalState) Err() error              { return v.s.Err() }
func (v *VerifC03EvalState) Pending() []*Task {
	var out []*Task
	for t := range v.s.pending {
		out = append(out, t)
	}
	return out
}

// Dump renders the complete internal state of the scheduling core canonically.
func (v *VerifC03EvalState) Dump() string {
	name := func(t *Task) string { return t.Name.String() }
	var parts []string
	for src, m := range v.s.deps {
		var ds []string
		for d := range m {
			ds = append(ds, name(d))
		}
		sortStrings(ds)
		parts = append(parts, "dep:"+name(src)+"->"+joinStrings(ds))
	}
	for t, n := range v.s.counts {
		parts = append(parts, "count:"+name(t)+"="+itoaC03(n))
	}
	for t := range v.s.todo {
		parts = append(parts, "todo:"+name(t))
	}
	for t := range v.s.pending {
		parts = append(parts, "pending:"+name(t))
	}
	if v.s.err != nil {
		parts = append(parts, "err")
	}
	sortStrings(parts)
	return joinStrings(parts)
}

func sortStrings(s []string) {
	for i := 1; i < len(s); i++ {
		for j := i; j > 0 && s[j] < s[j-1]; j-- {
			s[j], s[j-1] = s[j-1], s[j]
		}
	}
}

func joinStrings(s []string) string {
	out := ""
	for i, x := range s {
		if i > 0 {
			out += ";"
		}
		out += x
	}
	return out
}

func itoaC03(n int) string {
	if n < 0 {
		return "-" + itoaC03(-n)
	}
	if n < 10 {
		return string(rune('0' + n))
	}
	return itoaC03(n/10) + string(rune('0'+n%10))
}
