package exec

import (
	"context"

	"github.com/grailbio/bigslice/frame"
)

// VerifC05DefaultPartitioner exposes the unexported default partitioner
// (exec/compile.go:20-24) used for every shuffle dependency without a custom
// partitioner. It only forwards the call.
func VerifC05DefaultPartitioner(ctx context.Context, f frame.Frame, nshard int, shards []int) {
	defaultPartitioner(ctx, f, nshard, shards)
}
