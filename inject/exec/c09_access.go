package exec

// Accessors for property C09 (combining buffers). They only construct, drive and
// expose the unexported combiningFrame / combiner; no logic is re-implemented.

import (
	"context"
	"reflect"

	"github.com/grailbio/bigslice/frame"
	"github.com/grailbio/bigslice/slicefunc"
	"github.com/grailbio/bigslice/sliceio"
	"github.com/grailbio/bigslice/slicetype"
)

// VerifC09HashSeed is the seed the combining hash table hashes keys with.
const VerifC09HashSeed uint32 = hashSeed

// VerifC09LoadFactor is the table's load factor.
const VerifC09LoadFactor = combiningFrameLoadFactor

// VerifC09SetCombiningFrameSizes sets the initial capacity and the scratch size
// that newCombiner gives to its combining frame (package variables).
func VerifC09SetCombiningFrameSizes(init, scratch int) {
	i, s := init, scratch
	combiningFrameInitSize = &i
	combiningFrameScratchSize = &s
}

// VerifC09Frame wraps a real combiningFrame.
type VerifC09Frame struct{ c *combiningFrame }

func VerifC09MakeCombiningFrame(typ slicetype.Type, comb slicefunc.Func, n, nscratch int) *VerifC09Frame {
	return &VerifC09Frame{makeCombiningFrame(typ, comb, n, nscratch)}
}

func (f *VerifC09Frame) Combine(fr frame.Frame) { f.c.Combine(fr) }
func (f *VerifC09Frame) Compact() frame.Frame   { return f.c.Compact() }
func (f *VerifC09Frame) Len() int               { return f.c.Len() }
func (f *VerifC09Frame) Cap() int               { return f.c.Cap() }

// VerifC09Slots is the complete state of the open-addressing table.
type VerifC09Slots struct {
	Data       frame.Frame // the cap table slots (view of the real storage, not a copy)
	Hits       []int       // per-slot hit counts, widened to int (a copy unless the field is []int)
	Len, Cap   int
	Mask       int
	Threshold  int
	ScratchLen int
	DataLen    int // length of the whole data frame (table + scratch)
}

func (f *VerifC09Frame) Slots() VerifC09Slots {
	c := f.c
	return VerifC09Slots{
		Data:       c.data.Slice(0, c.cap),
		Hits:       verifC09Ints(c.hits),
		Len:        c.len,
		Cap:        c.cap,
		Mask:       c.mask,
		Threshold:  c.threshold,
		ScratchLen: c.scratch.Len(),
		DataLen:    c.data.Len(),
	}
}

// verifC09Ints widens a slice of any integer element type to []int, so that the
// accessor does not depend on the representation of the private hits field.
func verifC09Ints(v interface{}) []int {
	if s, ok := v.([]int); ok {
		return s
	}
	rv := reflect.ValueOf(v)
	out := make([]int, rv.Len())
	for i := range out {
		switch e := rv.Index(i); e.Kind() {
		case reflect.Int, reflect.Int8, reflect.Int16, reflect.Int32, reflect.Int64:
			out[i] = int(e.Int())
		case reflect.Uint, reflect.Uint8, reflect.Uint16, reflect.Uint32, reflect.Uint64, reflect.Uintptr:
			out[i] = int(e.Uint())
		case reflect.Bool:
			if e.Bool() {
				out[i] = 1
			}
		default:
			panic("verif C09 accessor: unsupported hits element type " + e.Type().String())
		}
	}
	return out
}

// VerifC09Combiner wraps a real (spilling) combiner.
type VerifC09Combiner struct{ c *combiner }

func VerifC09NewCombiner(typ slicetype.Type, name string, comb slicefunc.Func, targetSize int) (*VerifC09Combiner, error) {
	c, err := newCombiner(typ, name, comb, targetSize)
	if err != nil {
		return nil, err
	}
	return &VerifC09Combiner{c}, nil
}

func (w *VerifC09Combiner) Combine(ctx context.Context, f frame.Frame) error {
	return w.c.Combine(ctx, f)
}
func (w *VerifC09Combiner) Reader() (sliceio.Reader, error) { return w.c.Reader() }
func (w *VerifC09Combiner) WriteTo(ctx context.Context, enc *sliceio.Encoder) (int64, error) {
	return w.c.WriteTo(ctx, enc)
}
func (w *VerifC09Combiner) Discard() error        { return w.c.Discard() }
func (w *VerifC09Combiner) Table() *VerifC09Frame { return &VerifC09Frame{w.c.comb} }
func (w *VerifC09Combiner) Spiller() sliceio.Spiller {
	return w.c.spiller
}
func (w *VerifC09Combiner) Total() int      { return w.c.total }
func (w *VerifC09Combiner) TargetSize() int { return w.c.targetSize }
