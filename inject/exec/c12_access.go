package exec

// Accessors for the C12 harness (results reused / rescanned / discarded).
// They only expose state; no logic is re-implemented.

// VerifC12Task describes one task in the graph of a Result.
type VerifC12Task struct {
	Name  string // TaskName.String()
	State string // TaskState.String()
	Root  bool   // one of Result.tasks
	Host  string // address of the machine recorded as the location of the output ("" on the local executor / none)
}

// VerifC12Tasks lists every task reachable from r's roots (iterTasks order).
func VerifC12Tasks(r *Result) []VerifC12Task {
	roots := map[*Task]bool{}
	for _, t := range r.tasks {
		roots[t] = true
	}
	bm, _ := r.sess.executor.(*bigmachineExecutor)
	var out []VerifC12Task
	_ = iterTasks(r.tasks, func(t *Task) error {
		vt := VerifC12Task{Name: t.Name.String(), State: t.State().String(), Root: roots[t]}
		if bm != nil {
			if m := bm.location(t); m != nil {
				vt.Host = m.Addr
			}
		}
		out = append(out, vt)
		return nil
	})
	return out
}

// VerifC12Machines lists address and bigmachine state ("RUNNING", "STARTING",
// "STOPPED", ...) of every machine the session's bigmachine instance has started.
// Empty on the local executor.
func VerifC12Machines(s *Session) map[string]string {
	out := map[string]string{}
	bm, _ := s.executor.(*bigmachineExecutor)
	if bm == nil || bm.b == nil {
		return out
	}
	for _, m := range bm.b.Machines() {
		out[m.Addr] = m.State().String()
	}
	return out
}
