package exec

import "sort"

// Accessors for property C14 part (c): the machine manager's view of the
// machines of a bigmachine session. They only read (or, for
// VerifC14ForgetLocations, delete) state.
//
// The manager keeps its machine heaps in local variables of Do, so machines are
// found through the executor's task→machine location table: a machine is
// visible once a task has completed on it. Fields owned by the manager
// goroutine are read without synchronisation (plain word-sized loads).

// VerifC14Mach is the manager's bookkeeping for one machine.
type VerifC14Mach struct {
	Addr         string
	MaxTaskProcs int
	TaskProcs    int
	Health       string // ok | probation | lost
	Lost         bool   // (*sliceMachine).Lost(): bigmachine reported it stopped
}

func verifC14Executor(sess *Session) *bigmachineExecutor {
	b, _ := sess.executor.(*bigmachineExecutor)
	return b
}

// VerifC14Machines returns the view of every machine on which a task of this
// session has completed, sorted by address.
func VerifC14Machines(sess *Session) []VerifC14Mach {
	b := verifC14Executor(sess)
	if b == nil {
		return nil
	}
	seen := map[*sliceMachine]bool{}
	b.mu.Lock()
	for _, m := range b.locations {
		seen[m] = true
	}
	b.mu.Unlock()
	var out []VerifC14Mach
	for m := range seen {
		v := VerifC14Mach{Addr: m.Addr, MaxTaskProcs: m.maxTaskProcs, TaskProcs: m.taskProcs, Lost: m.Lost()}
		switch m.health {
		case machineOk:
			v.Health = "ok"
		case machineProbation:
			v.Health = "probation"
		case machineLost:
			v.Health = "lost"
		default:
			v.Health = "invalid"
		}
		out = append(out, v)
	}
	sort.Slice(out, func(i, j int) bool { return out[i].Addr < out[j].Addr })
	return out
}

// VerifC14Queued returns, per machine manager of the session, the number of
// scheduling requests currently queued.
func VerifC14Queued(sess *Session) []int {
	b := verifC14Executor(sess)
	if b == nil {
		return nil
	}
	b.mu.Lock()
	mgrs := append([]*machineManager{}, b.managers...)
	b.mu.Unlock()
	var out []int
	for _, m := range mgrs {
		if m == nil {
			out = append(out, 0)
			continue
		}
		out = append(out, len(m.schedQ))
	}
	return out
}

// VerifC14MachProcs returns machprocs of the default manager (0 if none yet).
func VerifC14MachProcs(sess *Session) int {
	b := verifC14Executor(sess)
	if b == nil {
		return 0
	}
	b.mu.Lock()
	defer b.mu.Unlock()
	if len(b.managers) == 0 || b.managers[0] == nil {
		return 0
	}
	return b.managers[0].machprocs
}

// VerifC14ForgetLocations deletes the executor's location entries of the tasks
// of r (all of them, transitively) and returns how many were deleted. It puts
// the executor in the state "a dependency is TaskOk but has no location".
func VerifC14ForgetLocations(sess *Session, r *Result) int {
	b := verifC14Executor(sess)
	if b == nil {
		return 0
	}
	n := 0
	_ = iterTasks(r.tasks, func(t *Task) error {
		b.mu.Lock()
		if _, ok := b.locations[t]; ok {
			delete(b.locations, t)
			n++
		}
		b.mu.Unlock()
		return nil
	})
	return n
}
