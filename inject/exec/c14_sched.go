package exec

import (
	"container/heap"
	"sync"
)

// sliceMachine is several KB (it embeds bigmachine.MemInfo with a
// runtime.MemStats), so the values are recycled between calls; every field that
// schedule or the queues look at (maxTaskProcs, taskProcs, index) is set afresh.
var verifC14MachPool = sync.Pool{New: func() interface{} { return new(sliceMachine) }}

// Accessors for property C14 part (a): call the real, unexported
// schedule(&schedQ, &machQ) on queues built from plain integers. Nothing here
// decides anything: values are constructed, pushed with container/heap (the
// queues' own Less/Swap/Push methods), schedule is called, and the resulting
// state is dumped.

// VerifC14Elem is one queue slot after the call: which input element sits there
// (ID = position in the input list, -2 = a pointer that was never put in) and
// the value of that element's heap index field.
type VerifC14Elem struct {
	ID    int
	Index int
}

// VerifC14SchedResult is the complete observable outcome of one schedule call.
type VerifC14SchedResult struct {
	// Req, Mach: input positions of the returned request / machine; -1 = nil,
	// -2 = a pointer that is not one of the inputs.
	Req, Mach int
	// Queues in slice order before and after the call.
	PreSchedQ, PreMachQ []VerifC14Elem
	SchedQ, MachQ       []VerifC14Elem
	// Field values of every input element after the call, by input position:
	// requests {priority, procs}, machines {maxTaskProcs, taskProcs}.
	ReqVals  [][2]int
	MachVals [][2]int
	// Panic is non-empty if schedule panicked.
	Panic string
}

// VerifC14Schedule builds a machineQ from machs ({maxTaskProcs, taskProcs}, pushed
// in the given order) and a scheduleRequestQ from reqs ({priority, procs}, pushed
// in the given order) and calls schedule on them.
func VerifC14Schedule(machs [][2]int, reqs [][2]int) (res VerifC14SchedResult) {
	var (
		machQ  machineQ
		schedQ scheduleRequestQ
		ms     = make([]*sliceMachine, len(machs))
		rs     = make([]*scheduleRequest, len(reqs))
	)
	for i, m := range machs {
		ms[i] = verifC14MachPool.Get().(*sliceMachine)
		ms[i].maxTaskProcs, ms[i].taskProcs, ms[i].index = m[0], m[1], 0
		heap.Push(&machQ, ms[i])
	}
	defer func() {
		for _, m := range ms {
			verifC14MachPool.Put(m)
		}
	}()
	for i, r := range reqs {
		rs[i] = &scheduleRequest{priority: r[0], procs: r[1]}
		heap.Push(&schedQ, rs[i])
	}
	mid := func(m *sliceMachine) int {
		if m == nil {
			return -1
		}
		for i := range ms {
			if ms[i] == m {
				return i
			}
		}
		return -2
	}
	rid := func(r *scheduleRequest) int {
		if r == nil {
			return -1
		}
		for i := range rs {
			if rs[i] == r {
				return i
			}
		}
		return -2
	}
	dump := func() (sq, mq []VerifC14Elem) {
		sq = make([]VerifC14Elem, len(schedQ))
		for i, r := range schedQ {
			sq[i] = VerifC14Elem{ID: rid(r)}
			if r != nil {
				sq[i].Index = r.index
			}
		}
		mq = make([]VerifC14Elem, len(machQ))
		for i, m := range machQ {
			mq[i] = VerifC14Elem{ID: mid(m)}
			if m != nil {
				mq[i].Index = m.index
			}
		}
		return
	}
	res.PreSchedQ, res.PreMachQ = dump()
	var (
		req  *scheduleRequest
		mach *sliceMachine
	)
	func() {
		defer func() {
			if e := recover(); e != nil {
				res.Panic = truncatef(e)
			}
		}()
		req, mach = schedule(&schedQ, &machQ)
	}()
	res.Req, res.Mach = rid(req), mid(mach)
	res.SchedQ, res.MachQ = dump()
	res.ReqVals = make([][2]int, len(rs))
	for i, r := range rs {
		res.ReqVals[i] = [2]int{r.priority, r.procs}
	}
	res.MachVals = make([][2]int, len(ms))
	for i, m := range ms {
		res.MachVals[i] = [2]int{m.maxTaskProcs, m.taskProcs}
	}
	return res
}
