package exec

import (
	"context"

	"github.com/grailbio/bigmachine"
	"github.com/grailbio/bigslice/verifrt/vsched"
)

// Accessors for the C14 live-manager layer (cmd/c14s). Expose only.

// VerifC14sManager wraps a real machineManager on a caller-supplied system.
type VerifC14sManager struct {
	m *machineManager
	b *bigmachine.B
}

type (
	VerifC14sMachine = sliceMachine
	VerifC14sRequest = scheduleRequest
)

func VerifC14sNewManager(sys bigmachine.System, maxp int, maxLoad float64) *VerifC14sManager {
	b := bigmachine.Start(sys)
	return &VerifC14sManager{m: newMachineManager(b, nil, nil, maxp, maxLoad, &worker{}), b: b}
}

func (v *VerifC14sManager) Do(ctx context.Context) { v.m.Do(ctx) }
func (v *VerifC14sManager) Machprocs() int         { return v.m.machprocs }
func (v *VerifC14sManager) Offer(priority, procs int) (<-chan *sliceMachine, func()) {
	return v.m.Offer(priority, procs)
}

// WatchQueue reports offers and cancellations in the order the manager receives them.
func (v *VerifC14sManager) WatchQueue(offer, cancel func(r *scheduleRequest)) {
	vsched.Watch((<-chan *scheduleRequest)(v.m.schedc), offer)
	vsched.Watch((<-chan *scheduleRequest)(v.m.unschedc), cancel)
}

func VerifC14sReqInfo(r *scheduleRequest) (priority, procs int, machc <-chan *sliceMachine) {
	return r.priority, r.procs, r.machc
}

// VerifC14sWatchDone reports Done messages of a machine in the order the manager receives them.
func VerifC14sWatchDone(m *sliceMachine, f func(m *sliceMachine, procs int, err error)) {
	vsched.Watch((<-chan machineDone)(m.donec), func(d machineDone) { f(d.sliceMachine, d.procs, d.Err) })
}

// VerifC14sMachineView reads the manager's bookkeeping of a machine.
func VerifC14sMachineView(m *sliceMachine) (taskProcs, maxTaskProcs int, health string) {
	h := "ok"
	switch m.health {
	case machineProbation:
		h = "probation"
	case machineLost:
		h = "lost"
	}
	return m.taskProcs, m.maxTaskProcs, h
}

// VerifC14sSessionManager returns the machine manager that the session's cluster
// executor uses for cluster i (created on first use, as a task's Run does).
func VerifC14sSessionManager(sess *Session, i int) interface{} {
	return sess.executor.(*bigmachineExecutor).manager(i)
}

// VerifC14sSessionManagers returns the managers the executor has published.
func VerifC14sSessionManagers(sess *Session) []interface{} {
	b := sess.executor.(*bigmachineExecutor)
	b.mu.Lock()
	defer b.mu.Unlock()
	var out []interface{}
	for _, m := range b.managers {
		out = append(out, m)
	}
	return out
}
