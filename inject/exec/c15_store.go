package exec

import (
	"context"
	"io"

	"github.com/grailbio/base/retry"
)

// Accessors for the C15 check (task stores, retryReader). They only construct the
// unexported types and expose package variables; no logic.

// VerifC15FileStore returns a fileStore on the given grailfile prefix.
func VerifC15FileStore(prefix string) Store { return &fileStore{Prefix: prefix} }

// VerifC15MemoryStore returns a fresh memoryStore.
func VerifC15MemoryStore() Store { return newMemoryStore() }

// VerifC15FileStorePath is fileStore.path.
func VerifC15FileStorePath(s Store, task TaskName, partition int) string {
	return s.(*fileStore).path(task, partition)
}

// VerifC15OpenerAt has the method set of openerAt.
type VerifC15OpenerAt interface {
	OpenAt(ctx context.Context, offset int64) (io.ReadCloser, error)
}

// VerifC15NewRetryReader is newRetryReader.
func VerifC15NewRetryReader(ctx context.Context, o VerifC15OpenerAt) io.ReadCloser {
	return newRetryReader(ctx, o)
}

// VerifC15RetryPolicy returns the policy object used by retryReader.
func VerifC15RetryPolicy() retry.Policy { return retryPolicy }

// VerifC15SetRetryPolicy replaces it.
func VerifC15SetRetryPolicy(p retry.Policy) { retryPolicy = p }
