package exec

// Accessors for the C16 harness (copy of c08_access.go; files are per command) (added to package exec by go build -overlay only).
// They expose unexported functions/state; they contain no compilation logic.

import (
	"bytes"
	"context"
	"encoding/gob"
	"fmt"
	"io"
	"reflect"

	"github.com/grailbio/bigslice"
	"github.com/grailbio/bigslice/stats"
)

// VerifC16Inv is a driver-side invocation as (*Session).run builds it.
type VerifC16Inv struct {
	inv   execInvocation
	slice bigslice.Slice
}

// VerifC16Invoke does what (*Session).run does before compiling:
// makeExecInvocation(funcv.Invocation(location, args...)) and inv.Invoke().
func VerifC16Invoke(fv *bigslice.FuncValue, location string, args ...interface{}) (vi *VerifC16Inv, err error) {
	defer func() {
		if e := recover(); e != nil {
			err = fmt.Errorf("invoke panic: %v", e)
		}
	}()
	inv := makeExecInvocation(fv.Invocation(location, args...))
	return &VerifC16Inv{inv: inv, slice: inv.Invoke()}, nil
}

func (v *VerifC16Inv) Index() uint64         { return v.inv.Index }
func (v *VerifC16Inv) Slice() bigslice.Slice { return v.slice }
func (v *VerifC16Inv) Args() []interface{}   { return v.inv.Args }
func (v *VerifC16Inv) EnvWritable() bool     { return v.inv.Env.IsWritable() }
func (v *VerifC16Inv) EnvCached() int        { return len(v.inv.Env.Cached) }

// Compile calls the unexported compile() with this invocation and its slice.
func (v *VerifC16Inv) Compile(machineCombiners bool) (tasks []*Task, err error) {
	defer func() {
		if e := recover(); e != nil {
			err = fmt.Errorf("compile panic: %v", e)
		}
	}()
	return compile(v.inv, v.slice, machineCombiners)
}

// Reinvoke calls Invoke() again on the same invocation (same index, same Env),
// returning a view with the freshly built slice.
func (v *VerifC16Inv) Reinvoke() (vi *VerifC16Inv, err error) {
	defer func() {
		if e := recover(); e != nil {
			err = fmt.Errorf("invoke panic: %v", e)
		}
	}()
	return &VerifC16Inv{inv: v.inv, slice: v.inv.Invoke()}, nil
}

// Freeze freezes the compile environment, as (*Session).run does after compiling.
func (v *VerifC16Inv) Freeze() { v.inv.Env.Freeze() }

// Result builds the *Result that (*Session).run returns for this invocation
// (without a session: it can be passed as an argument but not scanned).
func (v *VerifC16Inv) Result(tasks []*Task) *Result {
	return &Result{Slice: v.slice, invIndex: v.inv.Index, tasks: tasks}
}

// VerifC16ResultTasks exposes the root tasks of a result.
func VerifC16ResultTasks(r *Result) []*Task { return r.tasks }

// VerifC16ResultInvIndex exposes the invocation index of a result.
func VerifC16ResultInvIndex(r *Result) uint64 { return r.invIndex }

// VerifC16IsDefaultPartitioner reports whether p is exec's defaultPartitioner.
func VerifC16IsDefaultPartitioner(p bigslice.Partitioner) bool {
	return p != nil && reflect.ValueOf(p).Pointer() == reflect.ValueOf(defaultPartitioner).Pointer()
}

// VerifC16Driver is the invocation-shipping half of the bigmachine executor:
// addInvocation (Result -> invocationRef substitution, dependency tracking) and
// invocationReader (gob encoding, memoised on disk).
type VerifC16Driver struct {
	b *bigmachineExecutor
}

func VerifC16NewDriver() *VerifC16Driver {
	b := &bigmachineExecutor{}
	b.invocations = make(map[uint64]execInvocation)
	b.invocationDeps = make(map[uint64]map[uint64]bool)
	b.encodedInvocations = newInvDiskCache()
	return &VerifC16Driver{b}
}

// Ship registers the invocation the way (*bigmachineExecutor).Run does on first
// sight (addInvocation) and returns the bytes that (*bigmachineExecutor).compile
// streams to Worker.Compile: the gob encoding of the registered invocation.
//
// With viaDiskCache the bytes are obtained through the real checkInvocationReader /
// invocationReader (zstd file in a temp dir; ~90 ms each); without it only the direct
// encoding (the one statement inside invocationReader's create callback) is used.
// (The two are not byte-identical in general: gob writes Env.Cached in map order.)
func (d *VerifC16Driver) Ship(v *VerifC16Inv, viaDiskCache bool) (p []byte, err error) {
	defer func() {
		if e := recover(); e != nil {
			err = fmt.Errorf("ship panic: %v", e)
		}
	}()
	if _, err := d.b.addInvocation(v.inv); err != nil {
		return nil, err
	}
	d.b.mu.Lock()
	inv := d.b.invocations[v.inv.Index]
	d.b.mu.Unlock()
	var direct bytes.Buffer
	if err := gob.NewEncoder(&direct).Encode(inv); err != nil {
		return nil, err
	}
	if !viaDiskCache {
		return direct.Bytes(), nil
	}
	if err := d.b.checkInvocationReader(v.inv.Index); err != nil {
		return nil, err
	}
	rc, err := d.b.invocationReader(v.inv.Index)
	if err != nil {
		return nil, err
	}
	defer rc.Close()
	var buf bytes.Buffer
	if _, err := io.Copy(&buf, rc); err != nil {
		return nil, err
	}
	return buf.Bytes(), nil
}

// Deps returns the invocation indices that invocation i depends on (via Result arguments).
func (d *VerifC16Driver) Deps(i uint64) []uint64 {
	var out []uint64
	for j := range d.b.invocationDeps[i] {
		out = append(out, j)
	}
	return out
}

func (d *VerifC16Driver) Close() { d.b.encodedInvocations.close() }

// VerifC16Worker is a real *worker whose maps are set up as (*worker).Init does,
// without a bigmachine.B or a store (Compile uses neither).
type VerifC16Worker struct {
	w *worker
}

func VerifC16NewWorker(machineCombiners bool) *VerifC16Worker {
	w := &worker{MachineCombiners: machineCombiners}
	w.tasks = make(map[uint64]map[TaskName]*Task)
	w.taskStats = make(map[uint64]map[TaskName]*stats.Map)
	w.slices = make(map[uint64]bigslice.Slice)
	return &VerifC16Worker{w}
}

// Compile calls the real (*worker).Compile with the transported bytes.
func (w *VerifC16Worker) Compile(p []byte) error {
	return w.w.Compile(context.Background(), bytes.NewReader(p), nil)
}

// Roots returns the root tasks the worker stored for the invocation.
func (w *VerifC16Worker) Roots(inv uint64) []*Task {
	w.w.mu.Lock()
	defer w.w.mu.Unlock()
	r, ok := w.w.slices[inv].(*Result)
	if !ok {
		return nil
	}
	return r.tasks
}

// Result returns the worker-local result of an invocation.
func (w *VerifC16Worker) Result(inv uint64) *Result {
	w.w.mu.Lock()
	defer w.w.mu.Unlock()
	r, _ := w.w.slices[inv].(*Result)
	return r
}

// Named returns the names under which the worker can look up tasks of inv (Worker.Run).
func (w *VerifC16Worker) Named(inv uint64) map[TaskName]*Task {
	w.w.mu.Lock()
	defer w.w.mu.Unlock()
	return w.w.tasks[inv]
}

// VerifC16TaskArgs exposes the arguments of the invocation a task was compiled from.
func VerifC16TaskArgs(t *Task) []interface{} { return t.Invocation.Args }

// VerifC16TaskEnvCached exposes the number of cached (task, op) pairs in the task's compile env.
func VerifC16TaskEnvCached(t *Task) int { return len(t.Invocation.Env.Cached) }

// VerifC16Decoded is an invocation decoded by the real (*execInvocation).GobDecode.
type VerifC16Decoded struct {
	Index, Func uint64
	Exclusive   bool
	Location    string
	Args        []interface{}
	EnvWritable bool
	EnvCached   int
}

// VerifC16Decode decodes transported bytes exactly as (*worker).Compile does
// (gob.NewDecoder(r).Decode(&inv) with inv an execInvocation), without compiling.
func VerifC16Decode(p []byte) (d *VerifC16Decoded, err error) {
	defer func() {
		if e := recover(); e != nil {
			err = fmt.Errorf("decode panic: %v", e)
		}
	}()
	var inv execInvocation
	if err := gob.NewDecoder(bytes.NewReader(p)).Decode(&inv); err != nil {
		return nil, err
	}
	return &VerifC16Decoded{inv.Index, inv.Func, inv.Exclusive, inv.Location, inv.Args, inv.Env.Writable, len(inv.Env.Cached)}, nil
}

// VerifC16RefIndex reports whether arg is an invocationRef and its index.
func VerifC16RefIndex(arg interface{}) (uint64, bool) {
	r, ok := arg.(invocationRef)
	return r.Index, ok
}

func (v *VerifC16Inv) Location() string { return v.inv.Location }
func (v *VerifC16Inv) Func() uint64     { return v.inv.Func }
func (v *VerifC16Inv) Exclusive() bool  { return v.inv.Exclusive }
