package exec

import (
	"github.com/grailbio/bigslice/frame"
	"github.com/grailbio/bigslice/sliceio"
)

// VerifC17TaskBufferReader returns taskBuffer(parts).Reader(partition): the
// reader the local executor hands to dependent tasks. parts is laid out as
// taskBuffer is: partition, then the frames stored for it.
func VerifC17TaskBufferReader(parts [][]frame.Frame, partition int) sliceio.ReadCloser {
	return taskBuffer(parts).Reader(partition)
}

// VerifC17MultiReader builds the executor's multiReader exactly as
// (*localExecutor).depReaders does (a queue of readers, nothing else set).
func VerifC17MultiReader(q []sliceio.Reader) sliceio.Reader {
	reader := new(multiReader)
	reader.q = q
	return reader
}
