package exec

// VerifC19ResultStates reads the states of a result's root tasks without taking their
// locks (used inside scheduler predicates, which must not contain scheduling points).
func VerifC19ResultStates(r *Result) []TaskState {
	out := make([]TaskState, len(r.tasks))
	for i, t := range r.tasks {
		out[i] = t.state
	}
	return out
}
