package exec

import (
	"time"

	"github.com/grailbio/base/retry"
)

// VerifFastRetries shrinks retry delays (same retry count).
func VerifFastRetries() {
	retryPolicy = retry.MaxRetries(retry.Backoff(time.Millisecond, 5*time.Millisecond, 1.5), 5)
}

func VerifSetMaxConsecutiveLost(on bool) { enableMaxConsecutiveLost = on }

func VerifResultTaskStates(r *Result) []string {
	var out []string
	_ = iterTasks(r.tasks, func(t *Task) error {
		out = append(out, t.Name.String()+"="+t.State().String())
		return nil
	})
	return out
}
