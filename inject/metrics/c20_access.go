package metrics

import (
	"reflect"
	"sync/atomic"
	"unsafe"
)

// Accessors for the C20 harness. They only EXPOSE state (no mutation, no
// re-implementation of Merge/Reset/transport logic).

// VerifC20NumRegistered is the number of registered metrics, not counting the
// reserved slot 0.
func VerifC20NumRegistered() int { return len(metrics) - 1 }

// VerifC20Cell describes the storage slot of one registered metric in a scope.
type VerifC20Cell struct {
	Present bool    // an instance is stored for the metric
	Ptr     uintptr // identity of the instance (to see instances shared between scopes)
	Value   int64   // its value, if it is a counter instance
	Counter bool    // instance is a *counterValue
}

// VerifC20Peek reads the raw storage of scope s WITHOUT creating the list or
// any instance (Counter.Value creates both as a side effect). The result has one
// entry per registered metric id 1..n (index 0 = metric id 1). hasStorage tells
// whether the scope's list has been allocated.
func VerifC20Peek(s *Scope) (hasStorage bool, cells []VerifC20Cell) {
	cells = make([]VerifC20Cell, len(metrics)-1)
	ptr := atomic.LoadPointer(&s.storage)
	if ptr == nil {
		return false, cells
	}
	list := *(*[]unsafe.Pointer)(ptr)
	for id := 1; id < len(metrics) && id < len(list); id++ {
		p := atomic.LoadPointer(&list[id])
		if p == nil {
			continue
		}
		inst := *(*interface{})(p)
		c := &cells[id-1]
		c.Present = true
		if cv, ok := inst.(*counterValue); ok {
			c.Counter = true
			c.Ptr = uintptr(unsafe.Pointer(cv))
			c.Value = atomic.LoadInt64(&cv.Value)
		} else if rv := reflect.ValueOf(inst); rv.IsValid() && rv.Kind() == reflect.Ptr {
			c.Ptr = rv.Pointer()
		}
	}
	return true, cells
}
