package slicecache

import (
	"fmt"

	"github.com/grailbio/bigslice/sliceio"
)

// VerifC13FileReader exposes newFileReader: the reader that a cached shard is read
// with (file.Open, zstd, sliceio decoding).
func VerifC13FileReader(path string) sliceio.Reader { return newFileReader(path) }

// VerifC13Path exposes the naming scheme of shard files.
func VerifC13Path(prefix string, shard, numShards int) string {
	return fmt.Sprintf(pathFormat, prefix, shard, numShards)
}
