package slicecache

import (
	"context"
	"fmt"

	"github.com/grailbio/bigslice/sliceio"
)

// VerifC13FileReader exposes newFileReader: the reader that a cached shard is read
// with (file.Open, zstd, sliceio decoding).
func VerifC13FileReader(path string) sliceio.Reader { return newFileReader(path) }

// VerifC13Path exposes the naming scheme of shard files.
func VerifC13Path(prefix string, shard, numShards int) string {
	return fmt.Sprintf(pathFormat, prefix, shard, numShards)
}

// VerifC13Probe forwards to NewFileShardCache (+ RequireAllCached) and reports the
// resulting view; package internal/slicecache cannot be imported by the harness.
func VerifC13Probe(ctx context.Context, prefix string, numShards int, requireAll bool) []bool {
	c := NewFileShardCache(ctx, prefix, numShards)
	if requireAll {
		c.RequireAllCached()
	}
	out := make([]bool, numShards)
	for i := range out {
		out[i] = c.IsCached(i)
	}
	return out
}
