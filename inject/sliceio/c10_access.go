// Injected into package sliceio for check C10. Accessors only expose or set state.
package sliceio

// VerifC10SetSpillBatch sets SpillBatchSize (sliceio's init-time copy of the
// default chunk size: rows per encoded batch of a spill file and per-run buffer
// size of the merge reader) and returns the old value.
func VerifC10SetSpillBatch(n int) (old int) {
	old = SpillBatchSize
	SpillBatchSize = n
	return old
}

// VerifC10DefaultChunk exposes sliceio's unexported copy of the default chunk size.
func VerifC10DefaultChunk() int { return defaultChunksize }
