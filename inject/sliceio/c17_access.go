package sliceio

// VerifC17SetChunk sets the package's copy of the default vector size
// (Scanner read-ahead, ReadAll) and returns the previous value.
func VerifC17SetChunk(n int) int { old := defaultChunksize; defaultChunksize = n; return old }
