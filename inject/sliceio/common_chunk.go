package sliceio

// VerifCommonSetChunk sets sliceio's copy (taken at init) of
// internal/defaultsize.Chunk -- the vector size of Scanner and ReadAll -- and
// returns the old value. SpillBatchSize is exported and not touched here.
func VerifCommonSetChunk(n int) int {
	old := defaultChunksize
	defaultChunksize = n
	return old
}
