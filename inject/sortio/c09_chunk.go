package sortio

// VerifC09SetChunk sets the vector size that the merge/reduce readers buffer
// with (a copy of internal/defaultsize.Chunk taken at init) and returns the old value.
func VerifC09SetChunk(n int) int {
	old := defaultChunksize
	defaultChunksize = n
	return old
}
