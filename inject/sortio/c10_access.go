// Injected into package sortio for check C10 (build tag-less; mapped in by
// tools/build.py through go build -overlay). Accessors only expose or set state.
package sortio

import "github.com/grailbio/bigslice/sliceio"

// VerifC10SetCanary sets the canary row count used by SortReader
// (*numCanaryRows, i.e. defaultsize.SortCanary) and returns the old value.
func VerifC10SetCanary(n int) (old int) {
	old = *numCanaryRows
	*numCanaryRows = n
	return old
}

// VerifC10SetChunk sets sortio's init-time copy of the default chunk size
// (the per-stream buffer size of the reduce reader) and returns the old value.
func VerifC10SetChunk(n int) (old int) {
	old = defaultChunksize
	defaultChunksize = n
	return old
}

// VerifC10MergeRuns reports how many non-empty sorted runs the merge reader
// returned by SortReader / NewMergeReader holds in its heap (-1 if r is not a
// merge reader). Called right after creation it is the number of non-empty
// spill runs.
func VerifC10MergeRuns(r sliceio.Reader) int {
	m, ok := r.(*mergeReader)
	if !ok || m.heap == nil {
		return -1
	}
	return len(m.heap.Buffers)
}
