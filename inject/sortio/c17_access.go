package sortio

// VerifC17SetChunk sets the package's copy of the default vector size (the
// per-input buffer of the reduce reader) and returns the previous value.
func VerifC17SetChunk(n int) int { old := defaultChunksize; defaultChunksize = n; return old }
