package sortio

// VerifCommonSetChunk sets sortio's copy (taken at init) of
// internal/defaultsize.Chunk -- the per-reader buffer of the merge/reduce
// readers -- and returns the old value.
func VerifCommonSetChunk(n int) int {
	old := defaultChunksize
	defaultChunksize = n
	return old
}
