#!/bin/bash
# MANIFEST.setup_cmd: build the framework offline and prewarm the Go build cache.
set -eu
cd "$(dirname "$0")"
. tools/env.sh
mkdir -p .build/bin .build/tmp evidence replays
while read -r id builds; do
  [ -z "$id" ] && continue
  for b in ${builds//,/ }; do
    python3 tools/build.py "${b%%:*}" "${b##*:}" >/dev/null
  done
done < tools/checks.tsv
echo "setup ok"
