#!/bin/bash
# MANIFEST.setup_cmd: build the framework offline and prewarm the Go build cache for every
# check claimed in MANIFEST.json (a build failure of one command does not stop the others;
# the affected check will then report a machinery error itself).
set -u
cd "$(dirname "$0")"
. tools/env.sh
mkdir -p .build/bin .build/tmp evidence replays
claimed=$(python3 -c "import json;print(' '.join(c['property_id'] for c in json.load(open('MANIFEST.json'))['checks']))")
rc=0
for id in $claimed; do
  builds=$(grep -E "^${id}[[:space:]]" tools/checks.tsv | awk '{print $2}')
  for b in ${builds//,/ }; do
    if ! python3 tools/build.py "${b%%:*}" "${b##*:}" >/dev/null; then
      echo "setup: build of ${b} for ${id} failed" >&2; rc=1
    fi
  done
done
[ $rc = 0 ] && echo "setup ok"
exit $rc
