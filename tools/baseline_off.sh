#!/bin/bash
# Runs the repository's baseline suite with no verification hooks (there are no
# hook commits in /repo: all instrumentation is injected by `go build -overlay`).
# -modfile keeps `go test -mod=mod` from rewriting /repo/go.mod and go.sum.
d=$(mktemp -d)
cp /repo/go.mod "$d/go.mod"; cp /repo/go.sum "$d/go.sum"
cd /repo && GOFLAGS= go test -mod=mod -modfile="$d/go.mod" -json -vet=off -count=1 -timeout 25m ./...
rc=$?
rm -rf "$d"
exit $rc
