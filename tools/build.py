#!/usr/bin/env python3
"""Build one harness command against the CURRENT working tree of /repo.

usage: build.py <flavour> <cmd>      flavour in {plain, sched, race}; cmd = directory under harness/cmd

Nothing in /repo is modified: the compat layer, the injected accessor files and
(for the sched flavour) the instrumented sources are mapped in with `go build -overlay`.
Prints the path of the binary on stdout.
"""
import hashlib
import json
import os
import subprocess
import sys

VERIF = os.environ.get("VERIF_ROOT") or os.path.dirname(os.path.dirname(os.path.abspath(__file__)))
REPO = os.environ.get("REPO", "/repo")
BUILD = os.environ.get("VERIF_BUILD", os.path.join(VERIF, ".build"))
HARNESS = os.path.join(VERIF, "harness")

ENV = dict(os.environ)
ENV.update({
    "GOFLAGS": "-mod=mod", "GOPROXY": "off", "GOSUMDB": "off",
    "GOTOOLCHAIN": "local", "GODEBUG": "goindex=0",
})

# packages rewritten by the instrumenter in the sched flavour
INSTRUMENTED = [
    "github.com/grailbio/bigslice/exec",
    "github.com/grailbio/base/limiter",
    "github.com/grailbio/base/sync/ctxsync",
    "github.com/grailbio/base/sync/once",
    "golang.org/x/sync/errgroup",
]


def run(cmd, cwd=None, capture=True, check=True):
    p = subprocess.run(cmd, cwd=cwd, env=ENV, stdout=subprocess.PIPE if capture else None,
                       stderr=subprocess.PIPE if capture else None, text=True)
    if check and p.returncode != 0:
        sys.stderr.write("build.py: command failed: %s\n%s\n" % (" ".join(cmd), (p.stderr or "")[-6000:]))
        sys.exit(2)
    return p.stdout


MODFILE = []
CMD = [""]


def write_if_changed(path, content):
    if not os.path.exists(path) or open(path).read() != content:
        with open(path, "w") as f:
            f.write(content)


def ensure_gosum():
    """A scratch go.mod/go.sum pair (used with -modfile) whose replace directive
    points at REPO, so that neither /verif/harness/go.mod nor /repo is written to."""
    src = open(os.path.join(REPO, "go.sum")).read()
    extra_path = os.path.join(HARNESS, "go.sum.extra")
    extra = open(extra_path).read() if os.path.exists(extra_path) else ""
    d = os.path.join(BUILD, "mod")
    os.makedirs(d, exist_ok=True)
    gomod = open(os.path.join(HARNESS, "go.mod")).read().replace("=> /repo", "=> " + REPO)
    write_if_changed(os.path.join(d, "go.mod"), gomod)
    write_if_changed(os.path.join(d, "go.sum"), src + extra)
    MODFILE[:] = ["-modfile=" + os.path.join(d, "go.mod")]


def moddirs():
    out = run(["go", "list"] + MODFILE + ["-m", "-json", "all"], cwd=HARNESS)
    dirs = {}
    dec = json.JSONDecoder()
    i = 0
    out = out.strip()
    while i < len(out):
        obj, j = dec.raw_decode(out, i)
        i = j
        while i < len(out) and out[i].isspace():
            i += 1
        if obj.get("Dir"):
            dirs[obj["Path"]] = obj["Dir"]
    return dirs


def base_overlay(mods):
    base = mods["github.com/grailbio/base"]
    bm = mods["github.com/grailbio/bigmachine"]
    ov = {
        os.path.join(base, "errors", "zz_verif_cleanup.go"): os.path.join(VERIF, "compat", "cleanup.go"),
        os.path.join(base, "retry", "zz_verif_retry.go"): os.path.join(VERIF, "compat", "retry.go"),
        os.path.join(base, "limitbuf", "limitbuf.go"): os.path.join(VERIF, "compat", "limitbuf.go"),
        os.path.join(bm, "rpc", "client.go"): os.path.join(VERIF, "compat", "rpc_client.go"),
        os.path.join(REPO, "exec", "config.go"): os.path.join(VERIF, "compat", "exec_config.go"),
    }
    # injected accessor files: inject/<pkgkey>/<name>.go is added to the package as
    # zz_verif_<name>.go. Only files named common*.go or <cmd>*.go are used for a given
    # command, so that one property's accessors cannot break another property's build.
    inj = os.path.join(VERIF, "inject")
    pkgdirs = {
        "exec": os.path.join(REPO, "exec"),
        "bigslice": REPO,
        "sliceio": os.path.join(REPO, "sliceio"),
        "sortio": os.path.join(REPO, "sortio"),
        "frame": os.path.join(REPO, "frame"),
        "metrics": os.path.join(REPO, "metrics"),
        "slicecache": os.path.join(REPO, "internal", "slicecache"),
        "slicetest": os.path.join(REPO, "slicetest"),
        "typecheck": os.path.join(REPO, "typecheck"),
        "bigmachine": bm,
        "bigmachine_rpc": os.path.join(bm, "rpc"),
        "bigmachine_testsystem": os.path.join(bm, "testsystem"),
        "base_limiter": os.path.join(base, "limiter"),
        "base_file": os.path.join(base, "file"),
    }
    for key, d in pkgdirs.items():
        src = os.path.join(inj, key)
        if not os.path.isdir(src):
            continue
        for fn in sorted(os.listdir(src)):
            if not fn.endswith(".go"):
                continue
            stem = fn[:-3]
            if stem.startswith("common") or stem.startswith(CMD[0]):
                ov[os.path.join(d, "zz_verif_" + fn)] = os.path.join(src, fn)
    # virtual runtime packages
    for pkg in ("vsched", "vsync", "vatomic"):
        d = os.path.join(VERIF, "engine", "vrt", pkg)
        for fn in sorted(os.listdir(d)):
            if fn.endswith(".go") and not fn.endswith("_test.go"):
                ov[os.path.join(REPO, "verifrt", pkg, fn)] = os.path.join(d, fn)
    return ov


GCFLAGS = [
    "-gcflags=github.com/grailbio/bigslice/...=-lang=go1.23",
    "-gcflags=github.com/grailbio/base/...=-lang=go1.23",
    "-gcflags=golang.org/x/sync/...=-lang=go1.23",
]


def instrument(ov, mods):
    gen = os.path.join(BUILD, "gen-" + CMD[0])
    os.makedirs(gen, exist_ok=True)
    inst_bin = os.path.join(BUILD, "bin", "instrument")
    os.makedirs(os.path.dirname(inst_bin), exist_ok=True)
    run(["go", "build", "-o", inst_bin, "."], cwd=os.path.join(VERIF, "engine", "instrument"))
    ovfile = os.path.join(BUILD, "overlay-base-%s.json" % CMD[0])
    with open(ovfile, "w") as f:
        json.dump({"Replace": ov}, f, indent=1)
    # export data for every dependency
    out = run(["go", "list"] + MODFILE + ["-overlay", ovfile] + GCFLAGS + ["-export", "-deps", "-f",
              "{{.ImportPath}} {{.Export}}", "./cmd/" + CMD[0]], cwd=HARNESS)
    exports = os.path.join(BUILD, "exports-%s.txt" % CMD[0])
    with open(exports, "w") as f:
        f.write(out)
    deps = set(l.split(" ")[0] for l in out.splitlines())
    todo = [p for p in INSTRUMENTED if p in deps]
    if not todo:
        return ov
    pk = run(["go", "list"] + MODFILE + ["-overlay", ovfile, "-f", "{{.ImportPath}} {{.Dir}} {{range .GoFiles}}{{.}},{{end}}"] + todo,
             cwd=HARNESS)
    for line in pk.strip().splitlines():
        path, d, files = line.split(" ")
        files = files.rstrip(",")
        res = run([inst_bin, "-exports", exports, "-overlay", ovfile, "-out", gen, "-pkg", path, "-dir", d, "-files", files])
        rep = json.loads(res)
        ov.update(rep["Replace"])
    return ov


def main():
    flavour, cmd = sys.argv[1], sys.argv[2]
    CMD[0] = cmd
    os.makedirs(os.path.join(BUILD, "bin"), exist_ok=True)
    ensure_gosum()
    mods = moddirs()
    ov = base_overlay(mods)
    tags = ["verif"]
    flags = list(GCFLAGS)
    if flavour in ("sched", "schedm"):
        if flavour == "schedm":
            INSTRUMENTED.append("github.com/grailbio/bigslice/metrics")
        ov = instrument(ov, mods)
        tags.append("vsched")
    elif flavour == "race":
        flags = ["-race", "-gcflags=all=-d=checkptr=0"] + flags
    ovfile = os.path.join(BUILD, "overlay-%s-%s.json" % (flavour, cmd))
    with open(ovfile, "w") as f:
        json.dump({"Replace": ov}, f, indent=1)
    out = os.path.join(BUILD, "bin", "%s-%s" % (cmd, flavour))
    run(["go", "build"] + MODFILE + ["-overlay", ovfile, "-tags", ",".join(tags)] + flags + ["-o", out, "./cmd/" + cmd], cwd=HARNESS)
    print(out)


if __name__ == "__main__":
    main()
