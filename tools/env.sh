# Sourced by every script in /verif: offline Go environment (see DESIGN.md §1).
export GOFLAGS=-mod=mod
export GOPROXY=off
export GOSUMDB=off
export GOTOOLCHAIN=local
export GODEBUG=goindex=0
export GONOSUMDB='*'
export GONOSUMCHECK=1
export GOFLAGS="-mod=mod"
VERIF_ROOT=${VERIF_ROOT:-$(cd "$(dirname "${BASH_SOURCE[0]}")/.." && pwd)}
REPO=${REPO:-/repo}
export VERIF_ROOT REPO
