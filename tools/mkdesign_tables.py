#!/usr/bin/env python3
"""Regenerates the generated part of DESIGN.md §11 (between the AUTOGEN markers) from
known_findings.jsonl, seeded/*/meta.json, MANIFEST.json and evidence/*.json."""
import glob, json, os, re
V = os.path.dirname(os.path.dirname(os.path.abspath(__file__)))
out = []
# fixes + known findings
fixed, known = [], []
for l in open(os.path.join(V, "known_findings.jsonl")):
    l = l.strip()
    if l.startswith("fixed:"):
        m = re.match(r"fixed: property=(\S+) (\S+) (.*)", l)
        fixed.append(m.groups())
    elif l.startswith("{"):
        known.append(json.loads(l))
out.append("### 11.4 Genuine defects found and repaired in `/repo` (one `fix:` commit each)\n")
out.append("| property | commit | what failed |\n|---|---|---|")
for p, c, w in fixed:
    out.append("| %s | `%s` | %s |" % (p, c, w.replace("|", "\\|")))
out.append("\n### 11.5 Genuine defects recorded, not repaired (`known_findings.jsonl`)\n")
out.append("| property | signature | what fails and why it is not repaired |\n|---|---|---|")
for k in known:
    out.append("| %s | `%s` | %s |" % (k["property"], k["signature"], k["what"].replace("|", "\\|")))
# seeds
out.append("\n### 11.6 Independently seeded property-breaking changes and which check catches them\n")
out.append("Each change was written by a fresh sub-agent that was given only the property text, a scratch worktree and a build helper (`/tmp/seedkit`, no access to `/verif`); it had to compile, pass the 30 baseline tests, and come with a demonstration that fails with the change and passes without. I re-applied each patch to a scratch worktree and ran the property's quick check (`tools/seedtest.sh`).\n")
out.append("| seed | needs, in order to manifest | result of the check |\n|---|---|---|")
for d in sorted(glob.glob(os.path.join(V, "seeded", "*"))):
    mp = os.path.join(d, "meta.json")
    if not os.path.exists(mp):
        continue
    m = json.load(open(mp))
    out.append("| %s | %s | %s |" % (os.path.basename(d), m["needs_to_manifest"].replace("|", "\\|"), m["check_result"].replace("|", "\\|")))
# per-property table from evidence
out.append("\n### 11.7 Per-property status (from the committed evidence of the last quick run)\n")
man = json.load(open(os.path.join(V, "MANIFEST.json")))
out.append("| property | level | engine | quick run: what was covered | wall s |\n|---|---|---|---|---|")
for c in man["checks"]:
    pid = c["property_id"]
    try:
        e = json.load(open(os.path.join(V, "evidence", pid + ".json")))
    except Exception:
        continue
    cov = e["coverage"]
    if e["level"] == "model_checking" and "states" in cov:
        s = "states %s, transitions %s, traces on the implementation %s" % (cov.get("states"), cov.get("transitions"), cov.get("traces_validated_against_impl"))
    else:
        s = "evaluations %s, distinct non-trivial %s" % (cov.get("evaluations"), cov.get("distinct_nontrivial"))
    s += ", exhaustive=%s" % cov.get("exhaustive")
    out.append("| %s | %s | %s | %s | %.0f |" % (pid, e["level"], c.get("engine", ""), s, e["wall_s"]))
na = man.get("not_applicable", [])
if na:
    out.append("\nNot claimed: " + "; ".join("%s (%s)" % (x["property_id"], x["reason"]) for x in na))
text = "\n".join(out) + "\n"
p = os.path.join(V, "DESIGN.md")
s = open(p).read()
b, e = "<!-- AUTOGEN-BEGIN -->", "<!-- AUTOGEN-END -->"
if b not in s:
    s += "\n" + b + "\n" + e + "\n"
s = s[:s.index(b) + len(b)] + "\n" + text + s[s.index(e):]
open(p, "w").write(s)
print("DESIGN.md tables regenerated: %d fixes, %d known, seeds %d" % (len(fixed), len(known), len(glob.glob(os.path.join(V, 'seeded', '*')))))
