#!/usr/bin/env python3
"""Regenerates /verif/MANIFEST.json from the table below (single source of truth)."""
import json
import os
import subprocess

VERIF = os.path.dirname(os.path.dirname(os.path.abspath(__file__)))

TRUSTED = ("Trusted base: the Go toolchain; the compat overlay of DESIGN.md §1.2 (needed because the pinned go.mod "
           "cannot compile the anchored packages); accessor files injected into bigslice packages at build time; "
           "the harness's own reference models.")

# id -> dict(category, technique, text, note, design_ref)
CHECKS = {
    "C11": dict(
        category="model_checking",
        technique="explicit-state exhaustive enumeration of operation sequences on the real frame.Frame vs. a plain-slice reference model",
        text=("Every sequence of frame operations (Slice, Copy with aliasing, AppendFrame, Grow, Ensure, Swap, Zero, Prefixed, sort.Sort, "
              "decode-into-view) up to depth 3 (quick; 4 for the pointer-free type) / 4 (thorough) from every (off,len) view of a parent frame, "
              "for 13 column-type combinations (incl. parents whose columns have unequal capacities and parents built from columns with spare capacity, len < cap), is executed on the real implementation; after every step the complete underlying storage, inside "
              "and outside the view, plus Len/Cap/Index/Value/SliceHeader/Less/Hash/encode-decode are compared with a model built from ordinary Go slices."),
        note=TRUSTED + " Bounded: parent frames of 5-6 rows, depth as stated, 13 type combinations (+ the width and shared-column layers described in the evidence).",
        design_ref="§5 C11",
    ),
    "C03": dict(
        category="model_checking", engine="vsched",
        technique="stateless model checking of the instrumented real exec.Eval under a controlled scheduler (delay- and preemption-bounded, happens-before state caching) + explicit-state search of the evaluator's scheduling core",
        text=("The real exec.Eval (source-instrumented: every mutex, channel, select, go statement and map iteration goes through the vsched runtime) is run on "
              "hand-built task graphs (single, chain2, chain3, diamond, two roots sharing a dependency, shuffle phase with task groups; plus, for selected initial states, a producer phase forked to two roots, a phase whose members have DIFFERENT one-to-one dependencies (re-shuffle tasks over a reused result) and a phase of 10 producers - more simultaneous completions than the evaluator's completion channel buffers) with a harness Executor whose "
              "task outcomes OK/LOST/ERR and later losses of completed tasks are environment choices. For EVERY assignment of initial states INIT/OK/LOST/ERR to the tasks, "
              "and for one and two concurrent evaluations sharing the tasks, all schedules with <= 1-2 (quick) / 2-3 (thorough) deviations from the default scheduler (delay bounding) "
              "and <= 1 (quick) / 2 (thorough) preemptions are enumerated modulo happens-before equivalence. Monitors check: no hand-out over a dependency that never completed / is in ERROR / "
              "(without later loss) is not OK; no overlapping hand-outs of one task; no unneeded task run; nil only if every root completed and no task failed fatally; error only if a task failed fatally "
              "or the consecutive-loss limit (exactly 5 hand-outs) was reached; no deadlock. A second layer drives the unexported scheduling core (Enqueue/Return/Runnable/Done) through every history of "
              "task outcomes up to depth 5/7 from every initial assignment with explicit-state de-duplication."),
        note=TRUSTED + " vsched assumptions: explored code is data-race free; all blocking interactions go through instrumented constructs (unmanaged-operation counter reported); 64-bit history hashes do not collide. "
             "Bounded: graphs of <= 5 tasks (one of 11), stated deviation bounds, environment loss budget < 5 except in the always-lost scenarios; per-plan time budgets (hitting one sets exhaustive:false).",
        design_ref="§4 E1, §5 C03",
    ),
    "C18": dict(
        category="exploration",
        technique="exhaustive enumeration of the cross product of a finite universe of slice types x function signatures per constructor against independent schema predicates",
        text=("Full cross product (54k constructor calls) of 24 input slice types (incl. named key types of hashable kind without registered ops, int64 keys, context-implementing column types) x 135 function values (plus column tuples, shard counts, prefix values, argument tuples) for Const, ReaderFunc, WriterFunc, Map, Filter, "
              "Flatmap, Fold, Head, Scan, Prefixed, Reduce, Cogroup, Reshuffle, Repartition, Reshard, Func, Invocation and Apply. An independent predicate per constructor transcribed from its doc comment decides "
              "accept/reject; on reject the panic value must be a *typecheck.Error whose file:line is the harness call site and no user function may have run; on accept the result has the documented columns, prefix and shard count. "
              "Cases the documentation leaves open are excluded a priori (rules R0-R8 listed in the evidence)."),
        note=TRUSTED + " The schema predicates are this harness's reading of the doc comments; exclusion rules are stated in evidence.rule.",
        design_ref="§5 C18",
    ),
    "C19": dict(
        category="model_checking", engine="vsched",
        technique="stateless model checking of a real exec.Session (local executor, source-instrumented) under a controlled scheduler, delay-bounded with happens-before state caching; auxiliary free-running -race pass",
        text=("Concurrent Session.Run calls on one real session are executed under the vsched scheduler: two independent runs; r=Run(f) then Run(g,r) || Run(h,r) (shared tasks, with and without a "
              "preceding Discard so that exactly one of the runs must recompute); Run(g,r) || Scan(r) || Discard(r); two shuffling programs; a pipelined and a shuffling consumer of a 2-shard result; "
              "Parallelism 1 and 2. All schedules with <= 2 (quick, budgeted) / 3 (thorough) scheduling deviations are enumerated modulo happens-before equivalence. Oracle per execution: each run succeeds with "
              "exactly its solo rows; the shared source task processes each row exactly once (twice after a discard: one recomputation, by one run); a scan racing a discard yields all rows or a correct prefix then an error; no deadlock. "
              "Both tiers additionally run the same scenario bodies un-instrumented, on the local executor and on an in-process cluster, under the Go race detector (quick: GOMAXPROCS 4, 2 rounds; thorough: GOMAXPROCS 1,2,4,16, 8 rounds); any report is a violation (this part samples schedules)."),
        note=TRUSTED + " vsched assumptions as for C03. Bounded: 1-2 shard programs, 2-3 concurrent operations, stated deviation bounds with per-plan time budgets (bound actually completed is reported per plan). "
             "The 'no data races' clause is decided dynamically over sampled schedules, not exhaustively.",
        design_ref="§4 E1, §5 C19",
    ),
    "C05": dict(
        category="exploration",
        technique="bounded-exhaustive enumeration of keys x frame placements x shard counts on the real hash/partitioner, cross-process table comparison, end-to-end shard observation",
        text=("Direct: for EVERY value of uint8/int8/uint16/int16/bool, all strings and byte slices up to length 5 over a 3-letter alphabet, fixed lattices (4096 quick / 65536 thorough points incl. extremes, +-0, +-Inf, denormals) "
              "of the wider integer and float types and 5 two-column prefixes, Frame.Hash and the real default partitioner are evaluated with the key stored at every row position of frames of size 1,3,128 at view offsets 0,1,5, for shard counts 1-8; "
              "each (key, shard count) must map to exactly one shard in range. The same tables are computed in 3 separately started processes and must be identical. End-to-end: Reduce, Fold, Cogroup, Reshuffle, Reshard, Repartition "
              "followed by a WriterFunc recording (shard,row), producers with 1-3 shards, both executors: all rows of a key in one shard, same shard across runs, Repartition = user function's value, each distinct key emitted once."),
        note=TRUSTED + " Wider integer/float types are covered on lattices, not exhaustively; cluster workers run in-process (vsys), cross-process behaviour is covered by the table comparison.",
        design_ref="§5 C05",
    ),
    "C07": dict(
        category="fault_enumeration",
        technique="exhaustive enumeration of every single-bit flip, truncation point, short burst and length-message double flip of small encoded streams + bounded-exhaustive round trips",
        text=("Fidelity: sliceio encoder->decoder round trips over 20 column kinds (all int/uint widths, floats, bool, string, []byte, gob struct, pointer struct, custom codec with session state, array) in 1-3 columns, every batch-length "
              "sequence over {0..3} up to 3 batches x every destination-length pattern over {1..4}; rows, order, EOF, n<=len(dst) and untouched destination rows are checked on every Read. Corruption: for 20 (quick) / 42 (thorough) streams "
              "of <=150 bytes EVERY truncation point, EVERY single-bit flip, every 2-3 byte burst of 0x00/0xFF and every pair of bit flips inside each batch-length message is decoded in rlimited child processes; the reader must fail, or deliver "
              "only a correct prefix and never report a clean end having delivered fewer rows than written (a cut exactly at a batch boundary is a legitimately shorter stream); a crash/OOM/panic counts as failing to report an error."),
        note=TRUSTED + " One genuine defect is recorded in known_findings.jsonl (huge batch length allocated before the checksum can be verified). Random damage of large streams and coverage-guided fuzzing are other families and not done.",
        design_ref="§5 C07",
    ),
    "C10": dict(
        category="exploration",
        technique="bounded-exhaustive enumeration of input sequences x spill/canary/batch sizes x chunkings x destination sizes x error ordinals on the real sortio readers against sequential references",
        text=("SortReader: every key sequence over a 3-key alphabet up to length 6 (unique payloads), plus long all-equal/descending/strided inputs up to 4x the canary and up to 769 spill runs; canary {1,2,3,256} x spill batch {1,2,128} x "
              "spill target {1B,16B,1KiB}; destination sizes {1,2,5}; 16 upstream chunkings incl. zero-row non-final reads; an upstream error at every read ordinal; int, string and 2-column keys, sub-byte-per-row codecs. "
              "Merge reader: k=0..3 sorted streams (some empty), reduce-merge: streams sorted with unique keys. Oracles: sorted permutation / sorted union / one row per key with the exact fold; injected errors are returned, never turned into EOF; "
              "no spill directory survives reader creation (per-worker TMPDIR listed after every call). Non-trivial = cases that spilled >=2 runs, fired an error, refilled a merge buffer, or folded a key from >=2 streams."),
        note=TRUSTED + " Spill directories are placed under /dev/shm/c10-<pid>-* (removed on exit) for speed. Quick restricts inner products as stated in evidence.rule; budgets end in exhaustive:false.",
        design_ref="§5 C10",
    ),
    "C15": dict(
        category="fault_enumeration",
        technique="explicit enumeration of store operation histories against a map model with a fault injected at every underlying file operation (in-memory fault-injecting file system), and of all retry-reader failure scripts",
        text=("Task stores: every history of <=4 (quick) / 5 (thorough) operations {Create, Write, Commit, Discard(writer), Open(off in {0,1,len-1,len,len+1}), Stat, Discard(entry)} on two keys, on the real memoryStore and the real fileStore "
              "(on the vfs:// fault-injecting in-memory implementation of base/file); every fileStore history is re-run once per file-operation label with that operation failing, failing after a partial write, or crashing. "
              "Oracle: nothing visible before a successful Commit; then exactly the committed bytes from any offset and the record count until discarded; a Commit or Open whose underlying operation failed returns an error. "
              "retryReader: committed 6-byte stream, EVERY opener script over {deliver 1-3 bytes, fail, deliver k then fail, open fails} up to retry budget+2 (budget read from the real policy object), with and without recovery, x the VALUE of the transient failure (plain error, io.ErrUnexpectedEOF, io.ErrClosedPipe, io.ErrNoProgress, context.DeadlineExceeded of a sub-call, base-errors Net / Unavailable / Temporary): "
              "exactly the stream or an error, and an error only after the budget is exhausted."),
        note=TRUSTED + " The vfs package models close-commit atomicity of real file implementations (self-checked at start). Fault pairs are not enumerated; the sliceio decoding layer above retryReader is not driven here.",
        design_ref="§4 E3, §5 C15",
    ),
    "C20": dict(
        category="model_checking",
        technique="explicit-state enumeration of metric-scope operation sequences against a map model; controlled-scheduler exploration of concurrent scope use; end-to-end counter totals on both executors",
        text=("Sequences: with 1, 2 and 3 registered counters and 3 scopes, every sequence over {Incr(c,s,+-1), Value, Merge(s,t), Reset(s,t), Reset(s,nil), gob round trip, worker->driver transport} to depth 3 (quick, all) / "
              "5-7 (thorough, de-duplicated on presence/sharing/value of every slot) is replayed on fresh real scopes and compared with a map model after every step. Concurrency (layer S, flavour schedm: package metrics' atomics are "
              "scheduling points): 2-3 threads Incr/Merge/Value one fresh scope (CAS creation of the instance list and instances), all schedules up to preemption bound 3 (+ delay bound 6 thorough) - final totals must be the sums; the same bodies also run free under the Go race detector (a non-atomic access has no scheduling point; auxiliary, sampled). "
              "Real sessions under the same scheduler (c19-sched -layer C20: local executor and a one-machine cluster): the counters of a result are complete the moment Run returns, all schedules with <=2 / <=1 deviations. "
              "End-to-end: programs incrementing counters per row, 1-3 shards, with and without shuffles, both executors: Result.Scope() totals equal rows processed, once per task; reuse / discard-then-recompute histories (plain and map-side-combiner source tasks, recomputation on the same worker) report each task once."),
        note=TRUSTED + " vsched assumptions as for C03.",
        design_ref="§5 C20",
    ),
    "C08": dict(
        category="exploration",
        technique="bounded-exhaustive enumeration of slice programs, each compiled seven ways (driver, repeated, re-invoked, real worker.Compile from transported bytes, two separately started processes) and compared on a canonical graph dump + structural invariants",
        text=("19k (quick) / 110k (thorough) programs: all operator chains to depth 3 over 16 operators with shard counts 1-3, shared sub-slices consumed with different partition counts (also behind 40 pipelined operators: long task names), custom partitioners, combiners with and without "
              "machine combiners, nested shuffles, pragma placements, Cache/CachePartial with every subset of shards pre-cached, and Result arguments (pipelined, shuffled, nested, repeated). For each program the real compile runs on the driver, "
              "again, on a fresh re-invocation, through the real (*worker).Compile from the bytes shipped to workers, and in two separately started child processes; the canonical graph (task names modulo the process-global invocation index, "
              "shard/partition counts, combiner keys, groups, per-dependency head/partition/expand/key) must be identical in all, every task name the driver uses must resolve on the worker, and the invariants of the statement must hold: acyclic, "
              "unique names, one root per result shard, one task per shard per stage, no pipelining across shuffle/Materialize/Result, consumer shard p <- partition p of every producer shard, producer NumPartition == consumer shard count."),
        note=TRUSTED + " The canonical dump reads exported Task fields only. Workers in other processes share the binary (same Func registry).",
        design_ref="§5 C08",
    ),
    "C09": dict(
        category="model_checking",
        technique="explicit-state breadth-first search over operation histories of the real combiningFrame and combiner (replay on fresh objects, de-duplication on the full slot dump) against a map model",
        text=("Keys are chosen at start by the real seeded hash so that they collide modulo 8, 16 and 32, sit on each other's probe sequences and wrap around the table. Phase A drives the real combiningFrame (initial capacities 1-16, "
              "scratch 1-3): Combine of 1-3 row frames with values +-1 and Compact, BFS to depth 5 (quick) / 7 (thorough) over three alphabets (210/24/13 operations; reaching growth 8->16->32, mid-batch resizes, displaced keys after rehash), "
              "state = capacity, length, threshold and hits/key/value of every slot; oracle after every history: slots == map model, Compact returns each key once. Phase B drives the real spilling combiner with spill thresholds 1,2,3,5, "
              "several chunk/merge-buffer/spill-batch sizes, int, string and 2-column keys; state additionally includes every spilled run; every history is read back through Reader() and WriteTo: strictly ascending keys, one row per key, "
              "exact folds; spill directories must be gone afterwards. Families around boundaries: one hot key combined N = 2^k-1, 2^k, 2^k+1 times (k to 16/18); struct values; a combiner that spilled at R Combine calls, R = 1, 2, 2^k-1, 2^k, 2^k+1 (to 513 / 2049) and 100, 192, 200, 300, 320 (many sorted runs for the final merge)."),
        note=TRUSTED + " Accessors expose makeCombiningFrame/newCombiner and dump slots; no combiner logic is re-implemented. Random large skewed sequences are another family and not done.",
        design_ref="§5 C09",
    ),
    "C16": dict(
        category="exploration",
        technique="bounded-exhaustive enumeration of argument lists through the real invocation codec (in-process, real worker.Compile, child process), of unencodable arguments on a cluster with RPC counting, and of all location-list pairs for the diff",
        text=("(a) argument lists over 21 registered Funcs covering int, string, float64, []int, map, struct, pointer, interface{}, user interface (also interfaces that *exec.Result implements without being bigslice.Slice), bigslice.Slice and *exec.Result parameters, repeated parameter types (zero values, typed/untyped nil, interfaces holding "
              "each registered concrete type, nested Results) go through the real execInvocation encode/decode, an in-process (*worker).Compile and a separately started process: decoded arguments must equal the originals (Results map to the worker-local "
              "Result) and the compiled graph must equal the driver's; lists the codec rejects must be rejected as errors. (b) Unencodable arguments (func, chan, unregistered concrete type in an interface, typed nil pointer, ...) on 1- and 2-machine "
              "vsys clusters, one driver process per run: Run must return an error promptly with ZERO Worker.Run RPCs and no retry loop, and the driver must survive. (c) bigslice.FuncLocationsDiff on ALL ordered pairs of location lists of length <=4 "
              "(<=5 thorough) over a 3-letter alphabet: empty iff equal, and the edit script transforms one list into the other. (d)/(e) end-to-end Result-argument DAGs on growing clusters, also with a transient Worker.Compile error. (f) bigslice.FuncLocations follows the registry: every word over {query, create one more Func} up to length 5 (7 thorough), each in a fresh process; every answer must list exactly the Funcs registered so far and differ from the initial list exactly when something was registered."),
        note=TRUSTED + " Part (b) is not judged on the local executor (the statement speaks about workers). A worker with a different gob registry is outside the checked system.",
        design_ref="§5 C16",
    ),
    "C17": dict(
        category="model_checking",
        technique="exhaustive enumeration of upstream read scripts x destination-size sequences for 23 readers against a plain-Go reference, with sentinel-filled destination parents and snapshot comparison of delivered frames",
        text=("23 readers (operator readers const, readerfunc, map, prefixed, filter, flatmap, head, fold, writerfunc, scan, cogroup, reduce; sortio merge reader; sliceio MultiReader, FrameReader, decoding reader, spiller readers, ClosingReader, "
              "ReaderWithCloseFunc; exec taskBufferReader and multiReader; Scanner.Scan/Scanv) are driven with EVERY chunking of 5 rows into reads of 1-3 rows in both EOF forms (rows together with EOF, or a separate (0,EOF)), zero-row non-final reads "
              "where the statement allows them, and every destination-length sequence of length 1-2 (quick) / 1-3 (thorough) over {1,2,3,5}, at vector sizes {3,128} (+{1,2,5} thorough). Per run: 0<=n<=len(dst); the destination is a view into a "
              "sentinel-filled parent so writes to dst[n:] and outside the view are detected; delivered rows equal the reference; frames delivered earlier are unchanged at the end; reads after EOF return (0,EOF); Scanner yields each row once, ends "
              "with a nil Err, and refuses wrong arity/type with an error."),
        note=TRUSTED + " One genuine deviation is recorded in known_findings.jsonl (ReaderFunc zeroes the whole destination frame by design). Error-returning inputs are not part of the statement and not driven.",
        design_ref="§5 C17",
    ),
    "C12": dict(
        category="model_checking", engine="vsched",
        technique="explicit enumeration of all run/scan/reuse/discard/kill histories up to a depth on both executors (fresh session per history) + controlled-scheduler exploration of concurrent scan/run/discard on the instrumented local session",
        text=("Layer H: every history up to depth 4 (quick) / 5 (thorough) over {Run(f), Scan(r), Run(Map over r), Run(Map-then-Reduce over r), Run(Reduce directly over r), Discard(r), Kill(machine k)} on 1-shard, 2-shard and post-shuffle source programs, "
              "on the local executor and on a verifsystem cluster, each replayed in a fresh session in child processes; states = task states of every live result + machine liveness. Oracle: every successful use observes the rows of the first "
              "evaluation; a Func over a discarded/lost result succeeds by recomputing; a direct scan of a result whose outputs are gone delivers all rows or a correct prefix then an error; no hang. Space F (cluster): a Discard during which the n-th Worker.Discard RPC fails (persistent transport error with the Discard context expiring / machine dies before the request / after the handler), "
              "for every task of the result, followed by every short word over Run/scan/Discard: nothing may hang. Layer S (sibling binary, flavour sched): "
              "Scan||Scan, Scan||Discard, Run(g,r)||Discard, Run(g,r)||Run(h,r)||Discard, Run||Scan||Discard on the real instrumented local session and on a one-machine cluster under the vsched scheduler, all schedules with <=2 (quick, budgeted) / 3 deviations."),
        note=TRUSTED + " vsched assumptions as for C03. Inside one cluster history goroutine timing is not controlled (a signature is reported only if its simplest history reproduces 3/3 times in fresh processes); concurrent distributed histories run free.",
        design_ref="§5 C12",
    ),
    "C01": dict(
        category="exploration",
        technique="bounded-exhaustive enumeration of well-typed slice programs x data sets x shard counts, each run on the real local executor and compared with an independent sequential reference evaluator",
        text=("Programs are plain data (source in {Const, ReaderFunc, ScanReader} + a chain of operators from Map, Filter, Flatmap(0/1/2/5/variable outputs), Fold, Head, Reduce, Cogroup (single, with self, with a second source), Reshuffle, "
              "Repartition, Reshard, Prefixed+Reduce, Scan, WriterFunc, plus fixed DAG shapes: shared sub-slice consumed with two shard counts, nested shuffles, 3-way Cogroup) built by one registered Func from the AST. Quick: every chain of <=1 operator "
              "over the full 29-variant alphabet x 336 source configurations (rows 0,1,3,4,5,9 around the internal vector size set to 4; keys equal/distinct/colliding; 1-3 shards), all DAG shapes, and every well-typed chain of 2 operators over a "
              "20-variant core alphabet x 24 configurations, each at Parallelism 1 and 4 (33k runs). Thorough: depth 2 over all configurations, depth 3 over the reduced ones, plus runs at the real vector size 128 (347k runs). Also: Cogroup over 257/600-row shards, Filter over multi-vector inputs, struct columns, two-invocation programs, a cluster subset, and a key-type family (Reduce, Fold, Cogroup, Reshuffle, Fold over a Reshuffle over all 14 built-in key types incl. their extreme values, concrete Go programs against a map model). Oracle: the scanned rows "
              "equal the reference as a multiset, and as a sequence where the program fixes the order; Scan/WriterFunc callbacks observe every row of every shard exactly once followed by exactly one end-of-stream; runs terminate."),
        note=TRUSTED + " The reference evaluator (harness/refeval/eval.go) imports only the standard library. One genuine deviation is recorded in known_findings.jsonl (side effects repeated for a sub-slice read with two partition counts). "
             "Seeded random generation of larger programs (mentioned by the property's quantifier) is another family and not done.",
        design_ref="§4 E5, §5 C01",
    ),
    "C02": dict(
        category="fault_enumeration",
        technique="enumeration of every labelled RPC boundary of a recorded failure-free history as a machine-kill / stream-cut point (all single faults; pairs in thorough), each run in a fresh process on the in-process cluster",
        text=("Programs map-only, reduce, fold (quick) + cogroup, two-stage shuffle, Func over a reused Result (thorough) run on a verifsystem cluster whose RPCs all pass an interposer. The label alphabet is the union of the Worker.Compile/Run/Stat/Read "
              "histories of 8 failure-free runs; fault points = every label x {machine killed before the request arrives, after the handler ran but before the reply, after the reply} + Worker.Read replies cut at byte 0, mid, last and at every batch end, "
              "victim = callee and (for Worker.Run and final-scan reads) every other live machine; kills during the final Scanner pass included; thorough adds pairs (second fault taken from the history observed after the first fired). Two configurations: "
              "M1 consecutive-loss limit off and replacements available => the run and scan MUST succeed with exactly the failure-free rows; M2 production setting => exact rows, or an error (a failing scan must have delivered a correct sub-multiset); "
              "never wrong rows, hang (60 s watchdog, 3x re-run, goroutine dump) or crash. Only faults that actually fired count as evidence."),
        note=TRUSTED + " Within one cluster run goroutines are scheduled by the Go runtime: fault points are exhaustive, interleavings are not (M1 failures and hangs must reproduce 3/3). Machine-combiner sessions are excluded by the property. "
             "Three signatures of one genuine defect (scan resumed after recomputation of a nondeterministic task output) are recorded in known_findings.jsonl.",
        design_ref="§4 E4, §5 C02",
    ),
    "C14": dict(
        category="model_checking", engine="vsched",
        technique="exhaustive enumeration of scheduler configurations on the real schedule(); controlled-scheduler exploration of the real machineManager event loop and of the local limiter; forced exit paths of the executor's Run with a black-box capacity probe",
        text=("(a) The real unexported schedule() is called on EVERY configuration of <=3 machines (capacity 1-3, any load) and <=3 queued requests (procs 1-3, priority 0-1), heaps built in every insertion order (212k calls; <=4x4 in thorough, 11M calls), and compared with "
              "an independent first-fit-decreasing-with-reservation reference plus statement-level oracles (fits, priority order, queues restored, heap indices consistent). (b) The real machineManager.Do runs, source-instrumented, under the vsched scheduler on "
              "verifsystem machines: 2-3 requesters Offer / cancel / receive / Done(ok | remote error | transport error), optional machine stop; every interaction is observed in the manager's own order through channel watches and checked against a ledger: "
              "capacity never exceeded, no new work for machines on probation, priority order, every proc returned exactly once (ledger and the manager's own taskProcs at quiescence), no fitting request left waiting (deadlock), no more machines than justified; "
              "all schedules with <=1 (quick) / 2 (thorough) deviations x all environment choices; plus the executor's first use of a cluster by several tasks at once (one manager per cluster). "
              "Because a cooperative scheduler cannot see unsynchronised accesses, the same live manager is also run free (6 requesters, mixed sizes, offer/cancel/receive) under the Go race detector — auxiliary, sampled. (c) Every exit path of (*bigmachineExecutor).Run is forced through the RPC interposer (compile/commit-combiner/run: ok, remote, fatal, transport, machine killed; "
              "missing dependency location; cancellation) on machine-capped clusters; afterwards the manager's books must be zero and an Exclusive task per machine must be granted. (d) Local mode under vsched: 3 concurrent one-task runs, Parallelism 1 and 2, "
              "with and without an Exclusive task: at most p tasks inside user code at once, an exclusive task alone."),
        note=TRUSTED + " vsched assumptions as for C03; machine boot is confined to a non-explored prelude; a machine stop is made synchronous (the harness waits until the driver has seen it).",
        design_ref="§5 C14",
    ),
    "C06": dict(
        category="fault_enumeration",
        technique="exhaustive enumeration of the matrix call site x failure mode x persistence x position x pipeline x executor configuration, each cell on the real code in a child process with attempt counting and hang/crash oracles",
        text=("Every meaningful cell (about 1.9k quick; every row position in thorough) of: call site in {ReaderFunc, WriterFunc, Map, Filter, Flatmap, Fold, Repartition function, Scan callback, Reduce combiner in the task-local table / in the combine buffer / in the "
              "consumer-side merge (location verified from the call stack)} x mode in {plain error, temporary error (errors.Temporary, errors.Retriable, net-style Temporary(), one shared sentinel value), panic, partition out of range} x {always, once, twice} x position in {first row, first row after the vector "
              "boundary, last row, end-of-stream} (thorough: every row) x {operator last, followed by Reduce, reader/writer followed by Reshuffle (a combiner-free shuffle producer)} x {local; verifsystem; verifsystem with MachineCombiners; two-machine and one-proc variants}. Each cell runs on a fresh session in a child "
              "process; the injected function counts its own invocations. Oracle: a persistent failure => Run returns an error (with the user's message for reader/writer errors and every panic), the driver survives, bounded attempts (<= 160 deliveries), "
              "no hang (60 s + 20 s inactivity, re-run 3x), never a nil error with wrong rows; a one-shot temporary failure => success with the exact rows; afterwards a healthy Func runs in the same session."),
        note=TRUSTED + " Two signatures of the documented MachineCombiners limitation (no error recovery) are recorded in known_findings.jsonl. The vsched two-task shared-combiner scenario of the design was not needed: the wedge was reached by the matrix.",
        design_ref="§5 C06",
    ),
    "C13": dict(
        category="fault_enumeration",
        technique="enumeration of cache programs x every subset of pre-existing shard files x every file-operation fault (fail, partial write, crash) on an in-memory fault-injecting file system, followed by a second run on the files left behind",
        text=("16 (quick) / 19 (thorough) programs place Cache, CachePartial and ReadCache at the head, in the middle, before and after a shuffle and under Head (3 shards); user functions count their invocations per shard. For every program and both "
              "executors: every subset of the 3 shard files pre-existing; an upstream failure at every (shard,row); and, from the recorded failure-free history of file operations on the vfs:// volume, EVERY operation label failed, failed after a partial "
              "write, or crashed (process death: pending files vanish) - single faults for all programs, ordered pairs for the smallest; after each first run a second run in a fresh session on the files left behind. Oracle: a successful run yields the "
              "uncached rows; after a completed run the second run makes ZERO upstream calls for cached shards (Cache: all or nothing; CachePartial: per shard); every file under the prefix is absent or a complete zstd frame that decodes, with the "
              "implementation's own reader, to exactly that shard's rows; a run without faults never fails because of a file an earlier run left."),
        note=TRUSTED + " vfs models close-commit atomicity of real file implementations. Fault pairs only for the 1-2 smallest programs; machine loss combined with caching belongs to C02.",
        design_ref="§4 E3, §5 C13",
    ),
    "C04": dict(
        category="exploration",
        technique="differential enumeration of a configuration lattice (all configurations within 1 / 2 deviations of the default, plus the full product of the session options) over 14 executor-path-specific programs, against the default configuration and an independent reference evaluator",
        text=("14 programs chosen so that every executor path differs (combiner with few keys / with 900 keys and spills, prefixed reduce, Cogroup expand-deps, Fold, reshuffle/repartition/reshard with a WriterFunc placement check, nested shuffles, shared "
              "sub-slice, Head, Flatmap, Scan/WriterFunc observers, a Cache program run cold and warm, an ordered shuffle-free pipeline, a Flatmap directly over a reader that delivers its last rows together with EOF, 3-way Cogroup; plus fan-out, diamond-of-invocations, pointer-column and producer-placement stress programs) run under every configuration with <=1 deviation from the default (quick: 69 configurations, 560 evaluations) "
              "and <=2 deviations plus the full product machines x procs x Parallelism x MaxLoad x MachineCombiners x DoShuffleReaders (thorough: 1,075 configurations, 8,905 evaluations): executor {local, verifsystem}, cluster shape, Parallelism, MaxLoad, "
              "MachineCombiners, vector size, sort canary, spill batch, shuffle-reader randomisation, and Procs/Exclusive/Materialize pragmas at every pipeline position; process-wide sizes are set per child process. Oracle: rows equal the reference "
              "evaluator's and the default configuration's (multiset; sequence where fixed); Scan/WriterFunc observers see each row once; user metric counters read from Result.Scope() equal the reference row counts and the default's "
              "(cluster runs judged only when failure-free: no machine lost, Worker.Run calls == tasks)."),
        note=TRUSTED + " Reference evaluator = harness/refeval (standard library only). Sort canary and spill batch have no run-time observable, that they are exercised is argued by construction. Seeded random generation of larger programs is another family.",
        design_ref="§5 C04",
    ),
}

NOT_YET = "check designed in DESIGN.md §5 but not yet built/validated in this tree; not claimed"


def main():
    ids = [json.loads(l)["id"] for l in open(os.path.join(VERIF, "properties.jsonl"))]
    checks = []
    na = []
    for pid in ids:
        c = CHECKS.get(pid)
        if not c:
            na.append({"property_id": pid, "reason": NOT_YET})
            continue
        checks.append({
            "property_id": pid,
            "quick_cmd": "./run %s quick" % pid,
            "thorough_cmd": "./run %s thorough" % pid,
            "evidence_file": "/verif/evidence/%s.json" % pid,
            "replay_cmd_template": "./run %s quick -replay {path}" % pid,
            "engine": c.get("engine", "seqmc"),
            "level_claimed": {"category": c["category"], "text": c["text"], "design_ref": c["design_ref"]},
            "level_note": c["note"],
            "technique": c["technique"],
        })
    m = {
        "version": 1,
        "setup_cmd": "./setup.sh",
        "hooks": {
            "guard": "verif (Go build tag; additionally every accessor and all instrumentation is injected with `go build -overlay`, nothing is committed to /repo)",
            "enable": "python3 tools/build.py <plain|sched|race> <cmd> — builds harness/cmd/<cmd> against /repo's working tree with -overlay (compat + inject + instrumented sources) and -tags verif",
            "baseline_off_cmd": "/verif/tools/baseline_off.sh",
            "source_commits": [],
            "add_only": True,
        },
        "engines": [
            {"name": "seqmc", "path": "harness/ev + harness/cmd/*", "serves_properties": sorted(CHECKS),
             "kind_free_text": "bounded-exhaustive explicit-state / operation-sequence / fault-point enumeration on the real code against reference models"},
            {"name": "vsched", "path": "engine/vrt + engine/instrument", "serves_properties": [k for k, v in CHECKS.items() if v.get("engine") == "vsched"],
             "kind_free_text": "source instrumenter + controlled cooperative scheduler: stateless exploration of goroutine interleavings of the real exec package with happens-before state caching, delay/preemption bounding"},
        ],
        "checks": checks,
        "not_applicable": na,
        "notes": "See DESIGN.md. ./run <ID> quick|thorough rebuilds from /repo's working tree on every call.",
    }
    with open(os.path.join(VERIF, "MANIFEST.json"), "w") as f:
        json.dump(m, f, indent=1)
        f.write("\n")
    # validate
    try:
        import jsonschema  # noqa
        schema = json.load(open("/root/.vp/MANIFEST.schema.json"))
        jsonschema.validate(m, schema)
        print("MANIFEST.json valid:", len(checks), "checks,", len(na), "not claimed")
    except ImportError:
        print("MANIFEST.json written (jsonschema not available)")


if __name__ == "__main__":
    main()
