#!/usr/bin/env python3
"""Regenerates /verif/MANIFEST.json from the table below (single source of truth)."""
import json
import os
import subprocess

VERIF = os.path.dirname(os.path.dirname(os.path.abspath(__file__)))

TRUSTED = ("Trusted base: the Go toolchain; the compat overlay of DESIGN.md §1.2 (needed because the pinned go.mod "
           "cannot compile the anchored packages); accessor files injected into bigslice packages at build time; "
           "the harness's own reference models.")

# id -> dict(category, technique, text, note, design_ref)
CHECKS = {
    "C11": dict(
        category="model_checking",
        technique="explicit-state exhaustive enumeration of operation sequences on the real frame.Frame vs. a plain-slice reference model",
        text=("Every sequence of frame operations (Slice, Copy with aliasing, AppendFrame, Grow, Ensure, Swap, Zero, Prefixed, sort.Sort, "
              "decode-into-view) up to depth 3 (quick; 4 for the pointer-free type) / 4 (thorough) from every (off,len) view of a parent frame, "
              "for 8 column-type combinations, is executed on the real implementation; after every step the complete underlying storage, inside "
              "and outside the view, plus Len/Cap/Index/Value/SliceHeader/Less/Hash/encode-decode are compared with a model built from ordinary Go slices."),
        note=TRUSTED + " Bounded: parent frames of 5-6 rows, depth as stated, 8 type combinations.",
        design_ref="§5 C11",
    ),
}

NOT_YET = "check designed in DESIGN.md §5 but not yet built/validated in this tree; not claimed"


def main():
    ids = [json.loads(l)["id"] for l in open(os.path.join(VERIF, "properties.jsonl"))]
    checks = []
    na = []
    for pid in ids:
        c = CHECKS.get(pid)
        if not c:
            na.append({"property_id": pid, "reason": NOT_YET})
            continue
        checks.append({
            "property_id": pid,
            "quick_cmd": "./run %s quick" % pid,
            "thorough_cmd": "./run %s thorough" % pid,
            "evidence_file": "/verif/evidence/%s.json" % pid,
            "replay_cmd_template": "./run %s quick -replay {path}" % pid,
            "engine": c.get("engine", "seqmc"),
            "level_claimed": {"category": c["category"], "text": c["text"], "design_ref": c["design_ref"]},
            "level_note": c["note"],
            "technique": c["technique"],
        })
    m = {
        "version": 1,
        "setup_cmd": "./setup.sh",
        "hooks": {
            "guard": "verif (Go build tag; additionally every accessor and all instrumentation is injected with `go build -overlay`, nothing is committed to /repo)",
            "enable": "python3 tools/build.py <plain|sched|race> <cmd> — builds harness/cmd/<cmd> against /repo's working tree with -overlay (compat + inject + instrumented sources) and -tags verif",
            "baseline_off_cmd": "/verif/tools/baseline_off.sh",
            "source_commits": [],
            "add_only": True,
        },
        "engines": [
            {"name": "seqmc", "path": "harness/ev + harness/cmd/*", "serves_properties": sorted(CHECKS),
             "kind_free_text": "bounded-exhaustive explicit-state / operation-sequence / fault-point enumeration on the real code against reference models"},
            {"name": "vsched", "path": "engine/vrt + engine/instrument", "serves_properties": [],
             "kind_free_text": "source instrumenter + controlled cooperative scheduler: stateless exploration of goroutine interleavings of the real exec package with happens-before state caching, delay/preemption bounding"},
        ],
        "checks": checks,
        "not_applicable": na,
        "notes": "See DESIGN.md. ./run <ID> quick|thorough rebuilds from /repo's working tree on every call.",
    }
    with open(os.path.join(VERIF, "MANIFEST.json"), "w") as f:
        json.dump(m, f, indent=1)
        f.write("\n")
    # validate
    try:
        import jsonschema  # noqa
        schema = json.load(open("/root/.vp/MANIFEST.schema.json"))
        jsonschema.validate(m, schema)
        print("MANIFEST.json valid:", len(checks), "checks,", len(na), "not claimed")
    except ImportError:
        print("MANIFEST.json written (jsonschema not available)")


if __name__ == "__main__":
    main()
