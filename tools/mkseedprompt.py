#!/usr/bin/env python3
"""usage: tools/mkseedprompt.py <ID> <round-suffix, e.g. r3> [extra emphasis text]
Writes /tmp/seedkit/prompts/<ID><suffix>.txt from tools/seedkit/PROMPT.tmpl (copied to
/tmp/seedkit if missing), the property text, and the triggers of the seeds already kept
for that property (so that the new changes are in different mechanisms)."""
import json, os, sys, glob, shutil, re
V = os.path.dirname(os.path.dirname(os.path.abspath(__file__)))
pid, suf = sys.argv[1], sys.argv[2]
extra = sys.argv[3] if len(sys.argv) > 3 else ""
if not os.path.isdir('/tmp/seedkit'):
    shutil.copytree(os.path.join(V, 'tools/seedkit'), '/tmp/seedkit')
if not os.path.isdir('/tmp/seedkit/compat'):
    shutil.copytree(os.path.join(V, 'compat'), '/tmp/seedkit/compat')
os.makedirs('/tmp/seedkit/prompts', exist_ok=True)
prop = None
for l in open(os.path.join(V, 'properties.jsonl')):
    d = json.loads(l)
    if d['id'] == pid:
        prop = d
tmpl = open(os.path.join(V, 'tools/seedkit/PROMPT.tmpl')).read()
tag = pid + suf
s = tmpl.replace('@ID@', tag).replace('@PROPERTY@', json.dumps(prop, indent=1))
earlier = []
for m in sorted(glob.glob(os.path.join(V, 'seeded', pid + '-*', 'meta.json'))):
    t = json.load(open(m)).get('needs_to_manifest', '')
    t = re.sub(r'\s+', ' ', t).strip()
    if t:
        earlier.append('- ' + t[:400])
blk = ''
if earlier:
    blk = ("Earlier rounds already produced changes with the following triggers; yours must be in DIFFERENT "
           "mechanisms/sites and need different triggers:\n" + '\n'.join(earlier) + '\n\n')
if extra:
    blk += extra.strip() + '\n\n'
s = s.replace('Your task: produce TWO', blk + 'Your task: produce TWO', 1)
s = s.replace('use `git stash`/`git checkout` in your worktree or a second worktree', 'use `git diff > file`, `git checkout -- .` and `git apply file` in your worktree, or a second worktree; never `git stash`')
out = '/tmp/seedkit/prompts/%s.txt' % tag
open(out, 'w').write(s)
print(out, len(earlier), 'earlier triggers')
