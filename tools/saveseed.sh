#!/bin/bash
# usage: tools/saveseed.sh <property> <k> <srcdir> "<needs>" "<caught-by>"
# Copies a confirmed seeded change into /verif/seeded/<property>-<k>/ with meta.json.
set -eu
id=$1; k=$2; src=$3; needs=$4; caught=$5
dst=/verif/seeded/$id-$k
mkdir -p "$dst"
cp "$src/patch.diff" "$dst/patch.diff"
rm -rf "$dst/demo"; cp -r "$src/demo" "$dst/demo"
[ -d "$src/demo-helpers" ] && cp -r "$src/demo-helpers" "$dst/demo-helpers"
[ -f "$src/NOTES.md" ] && cp "$src/NOTES.md" "$dst/NOTES.md"
python3 - "$id" "$k" "$needs" "$caught" > "$dst/meta.json" <<'PY'
import json,sys
print(json.dumps({"property":sys.argv[1],"seed":int(sys.argv[2]),"origin":"independent sub-agent given only the property text and a scratch worktree (/tmp/seedkit prompt)",
 "needs_to_manifest":sys.argv[3],
 "confirmed":"patch applies to /repo HEAD; baseline suite 30/30 with the patch (basetest.sh); demo FAILs with the patch and PASSes without (run by the seeding agent, patch re-applied and check run by me via tools/seedtest.sh)",
 "check_result":sys.argv[4]},indent=1))
PY
echo saved $dst
