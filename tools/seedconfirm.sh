#!/bin/bash
# usage: tools/seedconfirm.sh <seed-dir, e.g. /tmp/seed-C02r4/1> [helper-dest-relative-to-worktree]
# Confirms a seeded change independently of the agent that wrote it, in a scratch worktree:
#   1. patch applies to /repo HEAD
#   2. the demonstration PASSes (exit 0) without the patch
#   3. the baseline suite is 30/30 with the patch
#   4. the demonstration FAILs (exit != 0) with the patch
# demo-helpers/*.go are copied to <worktree>/<helper-dest> (default: taken from demo-helpers/DEST
# if present, else exec/). Prints one line "SEEDCONFIRM <dir>: apply=.. pass_without=.. basetest=.. fail_with=.."
set -u
src=$(readlink -f "$1"); dest=${2:-}
tag=$(echo "$src" | tr '/' '_')-$$
wt=/tmp/seedconfirm$tag
git -C /repo worktree add --detach "$wt" HEAD >/dev/null 2>&1 || { echo "cannot create worktree"; exit 2; }
trap 'git -C /repo worktree remove --force "$wt" >/dev/null 2>&1; rm -rf "$wt.log"' EXIT
if [ -d "$src/demo-helpers" ]; then
  [ -z "$dest" ] && [ -f "$src/demo-helpers/DEST" ] && dest=$(cat "$src/demo-helpers/DEST")
  [ -z "$dest" ] && dest=exec
  # helpers may be given as a tree mirroring the worktree, or as flat files
  if find "$src/demo-helpers" -mindepth 2 -name '*.go' | grep -q .; then
    (cd "$src/demo-helpers" && find . -name '*.go' | while read f; do mkdir -p "$wt/$(dirname "$f")"; cp "$f" "$wt/$f"; done)
  else
    cp "$src"/demo-helpers/*.go "$wt/$dest/" 2>/dev/null
  fi
fi
/tmp/seedkit/run.sh "$wt" "$src/demo" > "$wt.log" 2>&1; without=$?
w_tail=$(tail -2 "$wt.log" | tr '\n' ' ' | cut -c1-160)
if git -C "$wt" apply "$src/patch.diff" 2>/dev/null; then apply=ok; else apply=FAILED; fi
base=$(/tmp/seedkit/basetest.sh "$wt" 2>&1 | tail -3 | tr '\n' ' ')
/tmp/seedkit/run.sh "$wt" "$src/demo" > "$wt.log" 2>&1; with=$?
p_tail=$(tail -2 "$wt.log" | tr '\n' ' ' | cut -c1-160)
echo "SEEDCONFIRM $src: apply=$apply without_rc=$without [$w_tail] basetest=[$base] with_rc=$with [$p_tail]"
[ "$apply" = ok ] && [ "$without" = 0 ] && [ "$with" != 0 ] && echo "$base" | grep -q 'tests passed: 30 failed: 0'
