#!/bin/bash
# usage: /tmp/seedkit/basetest.sh <worktree>
# Runs the repository's existing (baseline) test suite on the worktree the way CI does and prints
# the number of passing tests and every failing TEST (package-level build failures of packages that
# never compiled with the pinned dependencies are expected and ignored). Expected: 30 tests pass, 0 fail.
WT=$(cd "$1" && pwd)
d=$(mktemp -d); cp "$WT/go.mod" "$d/go.mod"; cp "$WT/go.sum" "$d/go.sum"
cd "$WT" && GOFLAGS= GOPROXY=off go test -mod=mod -modfile="$d/go.mod" -json -vet=off -count=1 -timeout 25m ./... 2>/dev/null > "$d/out.json"
python3 - "$d/out.json" <<'PY'
import json,sys
p=f=0
for l in open(sys.argv[1]):
    try: e=json.loads(l)
    except: continue
    if e.get('Test'):
        if e['Action']=='pass': p+=1
        if e['Action']=='fail': f+=1; print('FAIL', e['Package'], e['Test'])
print('tests passed:',p,'failed:',f)
PY
rm -rf "$d"
