// Demo template: runs a bigslice Func on the in-process (local) executor and on an
// in-process "cluster" (bigmachine testsystem), and prints the rows.
package main

import (
	"context"
	"fmt"
	"os"
	"sort"

	"github.com/grailbio/bigmachine/testsystem"
	"github.com/grailbio/bigslice"
	"github.com/grailbio/bigslice/exec"
)

var wordCount = bigslice.Func(func(nshard int) bigslice.Slice {
	s := bigslice.Const(nshard, []string{"a", "b", "a", "c", "b", "a"}, []int{1, 1, 1, 1, 1, 1})
	return bigslice.Reduce(s, func(x, y int) int { return x + y })
})

func run(sess *exec.Session) ([]string, error) {
	res, err := sess.Run(context.Background(), wordCount, 3)
	if err != nil {
		return nil, err
	}
	sc := res.Scanner()
	defer sc.Close()
	var (
		k    string
		v    int
		rows []string
	)
	for sc.Scan(context.Background(), &k, &v) {
		rows = append(rows, fmt.Sprintf("%s=%d", k, v))
	}
	sort.Strings(rows)
	return rows, sc.Err()
}

func main() {
	local := exec.Start(exec.Local, exec.Parallelism(2))
	rows, err := run(local)
	fmt.Println("local:", rows, err)

	sys := testsystem.New()
	sys.Machineprocs = 2
	// keepalive tuned down so that machine loss (sys.Kill(machine)) is noticed quickly
	cluster := exec.Start(exec.Bigmachine(sys), exec.Parallelism(4))
	rows2, err2 := run(cluster)
	fmt.Println("cluster:", rows2, err2)
	cluster.Shutdown()
	if err != nil || err2 != nil || fmt.Sprint(rows) != "[a=3 b=2 c=1]" || fmt.Sprint(rows2) != fmt.Sprint(rows) {
		fmt.Println("FAIL")
		os.Exit(1)
	}
	fmt.Println("PASS")
}
