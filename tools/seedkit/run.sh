#!/bin/bash
# usage: /tmp/seedkit/run.sh <worktree-of-bigslice> <demo-dir> [args...]
# Builds the Go main package in <demo-dir> (a directory with *.go files, package main, and NO go.mod)
# against the bigslice sources in <worktree> and runs it with [args]. Exit status = the program's.
# Nothing in <worktree> is modified. Everything is offline.
set -eu
WT=$(cd "$1" && pwd); DEMO=$(cd "$2" && pwd); shift; shift
export GOFLAGS=-mod=mod GOPROXY=off GOSUMDB=off GOTOOLCHAIN=local GODEBUG=goindex=0
B=$(mktemp -d /tmp/seedkit-build.XXXXXX)
trap 'rm -rf "$B"' EXIT
mkdir -p "$B/mod/demo"
cp "$DEMO"/*.go "$B/mod/demo/"
cat > "$B/mod/go.mod" <<EOM
module seeddemo

go 1.23

require (
	github.com/grailbio/base v0.0.9
	github.com/grailbio/bigmachine v0.5.8
	github.com/grailbio/bigslice v0.0.0
)

replace github.com/grailbio/bigslice => $WT
EOM
cp "$WT/go.sum" "$B/mod/go.sum"
BASE=$(cd "$B/mod" && go list -m -f '{{.Dir}}' github.com/grailbio/base)
BM=$(cd "$B/mod" && go list -m -f '{{.Dir}}' github.com/grailbio/bigmachine)
K=/tmp/seedkit/compat
cat > "$B/overlay.json" <<EOM
{"Replace": {
 "$BASE/errors/zz_compat_cleanup.go": "$K/cleanup.go",
 "$BASE/retry/zz_compat_retry.go": "$K/retry.go",
 "$BASE/limitbuf/limitbuf.go": "$K/limitbuf.go",
 "$BM/rpc/client.go": "$K/rpc_client.go",
 "$WT/exec/config.go": "$K/exec_config.go"
}}
EOM
(cd "$B/mod" && go build -overlay "$B/overlay.json" \
  -gcflags='github.com/grailbio/bigslice/...=-lang=go1.23' -gcflags='github.com/grailbio/base/...=-lang=go1.23' \
  -o "$B/demo.bin" ./demo)
export TMPDIR="$B/tmp"; mkdir -p "$TMPDIR"
"$B/demo.bin" "$@"
