#!/bin/bash
# usage: tools/seedtest.sh <property-id> <patch.diff> [tier] [extra ./run args]
# Applies a seeded property-breaking patch to a scratch worktree of /repo (never to /repo itself),
# runs the property's check against it, prints whether a VIOLATION was reported, and removes
# the worktree and its build output.
set -u
id=$1; patch=$(readlink -f "$2"); tier=${3:-quick}; shift; shift; shift || true
tag=$(basename "$(dirname "$patch")")-$$
wt=/tmp/seedtest-$id-$tag
git -C /repo worktree add --detach "$wt" HEAD >/dev/null 2>&1 || { echo "cannot create worktree"; exit 2; }
cleanup() { git -C /repo worktree remove --force "$wt" >/dev/null 2>&1; rm -rf "$wt-build" "$wt-out"; }
trap cleanup EXIT
if ! git -C "$wt" apply "$patch"; then echo "SEEDTEST $id $patch: patch does not apply"; exit 2; fi
cd /verif
REPO=$wt VERIF_BUILD=$wt-build VERIF_OUT=$wt-out ./run "$id" "$tier" "$@" > "$wt-out.log" 2>&1
rc=$?
nviol=$(grep -c '^VIOLATION' "$wt-out.log")
echo "SEEDTEST $id $(basename "$(dirname "$patch")"): exit=$rc violations=$nviol"
grep -E '^  signature:' "$wt-out.log" | sort | uniq -c | head -8
tail -1 "$wt-out.log"
rm -f "$wt-out.log"
[ "$rc" = 1 ] && [ "$nviol" -gt 0 ]
